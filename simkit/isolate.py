"""Run isolation: every simulated run starts from the library's import-time process state.

The runs of one worker share an interpreter.  If the code under test keeps process-global mutable state (a mutable
default argument, a module-level dict, an lru_cache, a class attribute), state would leak from one run into the
next, the outcome of run i would depend on runs 0..i-1, and a violation would not replay from its own choice list.
`Baseline` records that state once (deep copies, taken right after import) and `restore()` puts it back - in place,
because other modules may hold references to the very same objects."""
import copy
import sys
import types

_MUTABLE = (dict, list, set, bytearray)


def _has_mutable(t):
    return bool(t) and any(isinstance(v, _MUTABLE) for v in (t.values() if isinstance(t, dict) else t))


def _set_in_place(obj, snap, deep=True):
    """deep: the import-time snapshot must stay pristine, so its contents are copied; a simulated process's own
    state is put back as the very objects it consisted of (a context switch copies nothing: whoever holds a
    reference into that state - the caller of the library, say - must still alias it afterwards)."""
    cp = copy.deepcopy if deep else (lambda v: v)
    if isinstance(obj, dict):
        obj.clear()
        obj.update(cp(snap))
    elif isinstance(obj, list):
        obj[:] = cp(snap)
    elif isinstance(obj, set):
        obj.clear()
        obj.update(cp(snap))
    elif isinstance(obj, bytearray):
        obj[:] = snap


def _differs(obj, snap):
    try:
        return bool(obj != snap)
    except Exception:           # e.g. NumPy arrays inside: "truth value is ambiguous"
        return True


class Baseline:
    def __init__(self, prefix="traffic_weaver"):
        self.prefix = prefix
        self.funcs = []        # (function, defaults snapshot, kwdefaults snapshot)
        self.objs = []         # (mutable object, snapshot)
        self.caches = []       # objects with cache_clear()
        self.attrs = []        # (owner, name, snapshot) for rebinding of simple module/class attributes
        self.fdicts = []       # (function, copy of its __dict__)
        self.namespaces = []   # (module or class, set of attribute names at import time)
        seen = set()
        for name, mod in list(sys.modules.items()):
            if mod is None or not (name == prefix or name.startswith(prefix + ".")):
                continue
            self.namespaces.append((mod, set(vars(mod))))
            self._scan(vars(mod), mod, seen, depth=0)
        self.ns_sizes = {id(owner): len(vars(owner)) for owner, _ in self.namespaces}

    def _scan(self, namespace, owner, seen, depth):
        for attr, val in list(namespace.items()):
            if attr.startswith("__") and attr.endswith("__"):
                continue
            if id(val) in seen:
                continue
            fn = val.__func__ if isinstance(val, (staticmethod, classmethod)) else val
            if isinstance(fn, types.FunctionType):
                if getattr(fn, "__module__", "") and str(fn.__module__).startswith(self.prefix):
                    seen.add(id(val))
                    if _has_mutable(fn.__defaults__) or _has_mutable(fn.__kwdefaults__):
                        self.funcs.append((fn, copy.deepcopy(fn.__defaults__), copy.deepcopy(fn.__kwdefaults__)))
                    # attributes hung on the function object at run time (memo: f._cache = ...) must not survive either
                    self.fdicts.append((fn, dict(fn.__dict__)))
            elif hasattr(val, "cache_clear") and callable(getattr(val, "cache_clear", None)):
                seen.add(id(val))
                self.caches.append(val)
            elif isinstance(val, _MUTABLE):
                seen.add(id(val))
                try:
                    self.objs.append((val, copy.deepcopy(val)))
                except Exception:
                    pass
            elif isinstance(val, type) and str(getattr(val, "__module__", "")).startswith(self.prefix) and depth < 2:
                seen.add(id(val))
                self.namespaces.append((val, set(vars(val))))
                self._scan(dict(vars(val)), val, seen, depth + 1)
            elif isinstance(val, (int, float, str, bool, type(None), tuple)) and not isinstance(owner, type):
                self.attrs.append((owner, attr, val))

    def restore(self):
        for fn, snap in self.fdicts:
            d = fn.__dict__
            if d or snap:
                if d != snap:
                    d.clear()
                    d.update(snap)
        for owner, names in self.namespaces:
            ns = vars(owner)
            if len(ns) != self.ns_sizes[id(owner)]:
                for extra in [k for k in ns if k not in names and not (k.startswith("__") and k.endswith("__"))]:
                    try:
                        delattr(owner, extra)          # a global / class attribute created at run time
                    except Exception:
                        pass
        for fn, d, kd in self.funcs:
            fn.__defaults__ = copy.deepcopy(d)
            fn.__kwdefaults__ = copy.deepcopy(kd)
        for obj, snap in self.objs:
            try:
                if _differs(obj, snap):
                    _set_in_place(obj, snap)
            except Exception:
                pass
        for c in self.caches:
            try:
                c.cache_clear()
            except Exception:
                pass
        for owner, attr, val in self.attrs:
            try:
                cur = getattr(owner, attr, val)
                if cur is not val and cur != val:
                    setattr(owner, attr, val)
            except Exception:
                pass


class ProcessStates:
    """One copy of the library's mutable process state per simulated OS process.  The scheduler calls
    switch_to(key) before it lets a process run, so a module-level cache filled by one simulated process is not
    visible to another one - while several loads made by the SAME simulated process do share it."""

    def __init__(self, baseline):
        self.b = baseline
        self.current = None
        self.store = {}

    def _capture(self):
        """Sparse snapshot: only what differs from the import-time baseline (usually nothing)."""
        b = self.b
        extras = {}
        for i, (owner, names) in enumerate(b.namespaces):
            ns = vars(owner)
            if len(ns) != b.ns_sizes[id(owner)]:
                ex = {k: v for k, v in ns.items() if k not in names and not (k.startswith("__") and k.endswith("__"))}
                if ex:
                    extras[i] = ex
        fdicts = {i: dict(fn.__dict__) for i, (fn, snap) in enumerate(b.fdicts) if fn.__dict__ and fn.__dict__ != snap}
        fdefs = [(copy.deepcopy(fn.__defaults__), copy.deepcopy(fn.__kwdefaults__)) for fn, _, _ in b.funcs]
        # shallow: the container is copied, what it contains is kept by reference (see _set_in_place)
        objs = {i: copy.copy(obj) for i, (obj, snap) in enumerate(b.objs) if _differs(obj, snap)}
        attrs = {i: getattr(owner, attr, val) for i, (owner, attr, val) in enumerate(b.attrs)
                 if getattr(owner, attr, val) is not val}
        if not (extras or fdicts or objs or attrs or b.funcs or b.caches):
            return None
        return (fdefs, objs, attrs, fdicts, extras)

    def _apply(self, snap):
        b = self.b
        b.restore()                            # back to import time; the process's own differences are put back below
        if snap is None:
            return
        fdefs, objs, attrs, fdicts, extras = snap
        for i, d in fdicts.items():
            b.fdicts[i][0].__dict__.update(d)
        for i, ex in extras.items():
            owner = b.namespaces[i][0]
            for k, v in ex.items():
                try:
                    setattr(owner, k, v)
                except Exception:
                    pass
        for (fn, _, _), (d, kd) in zip(b.funcs, fdefs):
            fn.__defaults__, fn.__kwdefaults__ = copy.deepcopy(d), copy.deepcopy(kd)
        for i, val in objs.items():
            try:
                _set_in_place(b.objs[i][0], val, deep=False)
            except Exception:
                pass
        for i, val in attrs.items():
            owner, attr, _ = b.attrs[i]
            try:
                setattr(owner, attr, val)
            except Exception:
                pass

    def switch_to(self, key, fresh=False):
        if key == self.current and not fresh:
            return
        if self.current is not None:
            self.store[self.current] = self._capture()
        self._apply(None if fresh else self.store.get(key))
        self.current = key


_BASELINE = None


_SUB_BASELINES = {}


def process_states(prefix="traffic_weaver.datasets"):
    """Per-simulated-process state for the part of the library the simulated processes run (the dataset loaders);
    the baseline of that part is taken right after the whole library has been reset to import time."""
    reset_library_state()
    if prefix not in _SUB_BASELINES:
        _SUB_BASELINES[prefix] = Baseline(prefix)
    return ProcessStates(_SUB_BASELINES[prefix])


_NP_ERR = None


def reset_library_state():
    """Called at the start of every simulated run."""
    global _BASELINE, _NP_ERR
    import random as _random
    _random.seed(20240921)          # code under test that draws from the global `random` must not break replay
    try:
        import numpy as np
        if _NP_ERR is None:
            _NP_ERR = np.geterr()
        elif np.geterr() != _NP_ERR:
            np.seterr(**_NP_ERR)            # process-global NumPy error state changed by an earlier run
        np.random.seed(20240921)
    except Exception:
        pass
    if _BASELINE is None:
        import importlib
        for m in ("traffic_weaver", "traffic_weaver.datasets", "traffic_weaver.datasets._datasets"):
            try:
                importlib.import_module(m)
            except Exception:
                pass
        _BASELINE = Baseline()
    else:
        _BASELINE.restore()
