"""Deterministic scheduler (baton-passing real threads) and the seams it owns.

A simulated OS process ("actor") is a real Python thread running real library code.  Exactly
one actor holds the baton; it runs until it reaches a *yield point* (a seam call), where it
parks and hands the baton back to the scheduler (the main thread), which decides from the
choice stream who runs next, or that the parked actor is killed there (never resumed).

Seams are installed once per process by attribute replacement at the origin of each call
(builtins.open, os.stat, time.sleep, urllib.request.urlretrieve, hashlib.sha256, ...) plus a
CPython audit hook for every file-system mutation; all of them are pass-through unless the
calling thread is a live actor of the active simulation.
"""
import _thread
import builtins
import collections
import hashlib
import io
import os
import socket
import sys
import tempfile
import threading
import time
import urllib.request

ACTIVE = None          # the Sim currently running in this process
_INSTALLED = False
REAL = {}

NEW, RUNNING, PARKED, DONE, CRASHED = "new", "running", "parked", "done", "crashed"
HANDOFF_TIMEOUT = 60.0


class Killed(BaseException):
    """Raised inside a dead actor's thread when the run is reaped (after all verdicts)."""


class NetworkTouched(BaseException):
    """An actor that must not use the network did. BaseException: no retry loop can absorb it."""


class NetworkEscape(BaseException):
    """Something tried to reach the real network."""


class HarnessTimeout(Exception):
    pass


class StepCap(Exception):
    pass


class _Touched(dict):
    """path -> st_mtime_ns observed just before the operation (None if the path did not exist)."""

    def add(self, path):
        if path not in self:
            try:
                self[path] = REAL["stat"](path).st_mtime_ns
            except OSError:
                self[path] = None


class Actor:
    def __init__(self, sim, aid, role, fn):
        self.sim = sim
        self.id = aid
        self.role = role
        self.fn = fn
        self.lock = _thread.allocate_lock()
        self.lock.acquire()
        self.thread = None
        self.state = NEW
        self.dead = False
        self.result = None
        self.exc = None
        self.pending = None          # label of the operation the actor is parked in front of
        self.pending_detail = None
        self.yields = 0
        self.site_counts = collections.Counter()
        self.start_after = 0
        self.t_start = None
        self.t_end = None
        self.ready_at = 0.0          # global simulated time at which the pending operation completes
        self.pending_cost = 0.0
        self.resumed_at = 0.0
        self.touch = _Touched()      # paths whose mtime must be stamped with simulated time (if the step changed them)
        self.next_cost = None
        self.blocked_on = None
        self.speed = 1.0
        self.priority = 0
        self.crash_at = None         # crash when parked at yield number k (1-based)
        self.crash_site = None       # (label prefix, occurrence)
        self.interrupt_at = None     # deliver KeyboardInterrupt (SIGINT) when parked at yield number k: unlike a kill, the
        self.interrupt_now = False   # process unwinds through its `finally:` / `with` clean-up code, step by step
        self.interrupted = False
        self.names_used = 0
        self.name_collide = None
        self.net = None              # network plan, owned by the machine
        self.attrs = {}

    def _body(self):
        sim = self.sim
        sim.by_ident[_thread.get_ident()] = self
        try:
            try:
                self.result = self.fn()
            except Killed:
                raise
            except BaseException as e:   # noqa: B036 - the outcome of the simulated process
                self.exc = e
            if self.attrs.get("atexit") and self.attrs.get("proc") is None:
                for func, args, kwargs in reversed(self.attrs.pop("atexit")):
                    try:
                        sim.stats["probe:atexit-handler-run"] += 1
                        func(*args, **kwargs)
                    except Killed:
                        raise
                    except Exception:        # Python prints and ignores it
                        pass
        except Killed:
            pass
        finally:
            sim.locks.release_actor(self.id)
            if not self.dead:
                sim.stamp(self)
                self.state = DONE
                self.t_end = sim.step
            sim.by_ident.pop(_thread.get_ident(), None)
            sim.sched_lock.release()

    def crash_now(self):
        if self.crash_at is not None and self.yields == self.crash_at:
            return True
        if self.crash_site is not None:
            prefix, occ = self.crash_site
            if self.pending is not None and self.pending.startswith(prefix) and self.site_counts[prefix] == occ:
                return True
        return False


CLOCK_BASE = 1.7e9
HARD_STEP_CAP = 120000
WAIT_HORIZON = 6 * 3600.0
COST = {"net": 0.0, "sleep": 0.0, "stat": 2e-5, "open": 5e-5, "write": 1e-4, "close": 5e-5, "rename": 5e-5}


class Sim:
    def __init__(self, stream, root, classify=None, keep_log=False):
        self.stream = stream
        self.root = os.path.realpath(root)
        self.classify = classify or (lambda p: ("path", os.path.relpath(p, self.root)))
        self.actors = []
        self.by_ident = {}
        self.sched_lock = _thread.allocate_lock()
        self.sched_lock.acquire()
        self.step = 0
        self.vtime = 0.0             # == now: one global simulated clock (all actors are processes on one host)
        self.keep_log = keep_log
        self.log = [] if keep_log else None
        self.hasher = hashlib.sha256()
        self.stats = collections.Counter()
        self.last = None
        self.discipline = "uniform"
        self.pct_points = ()
        self.script = []
        self.script_actors = []
        self.other_fs = None         # directory that counts as a different file system (the system temp dir)
        self.procs = None            # isolate.ProcessStates: per simulated process copy of the library's module state
        self.sticky_den = 8          # "sticky": the running actor is pre-empted with probability 1/sticky_den per step
        self.locks = LockTable()
        self.outside_writes = []
        self.crash_prefixes = ()
        self.world = None

    # ------------------------------------------------------------------ logging
    def note(self, actor_id, label, detail=""):
        rec = (self.step, actor_id, label, detail)
        self.hasher.update(repr(rec).encode())
        if self.log is not None:
            self.log.append(rec)

    def digest(self):
        return int.from_bytes(self.hasher.digest()[:8], "big")

    # ------------------------------------------------------------------ actors
    def spawn(self, role, fn, start_after=0):
        a = Actor(self, len(self.actors), role, fn)
        a.start_after = start_after
        a.ready_at = self.vtime
        self.actors.append(a)
        return a

    def stamp(self, a):
        """Give every path the actor touched in its last step a modification time in simulated time, so that
        code comparing time.time() with st_mtime sees one consistent clock."""
        if a.touch:
            t = CLOCK_BASE + a.resumed_at
            for pth, before in a.touch.items():
                try:
                    if before is None or REAL["stat"](pth).st_mtime_ns != before:     # the kernel saw a change
                        REAL["utime"](pth, (t, t))
                except OSError:
                    pass
            a.touch.clear()

    def yield_point(self, a, label, detail="", cost=None):
        """Called in actor thread `a`: park in front of operation `label` (which will take `cost` simulated seconds)."""
        self.stamp(a)
        a.yields += 1
        a.pending = label
        a.pending_detail = detail
        for p in self.crash_prefixes:
            if label.startswith(p):
                a.site_counts[p] += 1
        kind = label.split(".", 1)[0].split(":", 1)[0].split("-", 1)[0]
        if cost is None and a.next_cost is not None and label.startswith("write"):
            cost, a.next_cost = a.next_cost, None
        a.pending_cost = (COST.get(kind, 5e-5) if cost is None else cost) * a.speed
        a.ready_at = self.vtime + a.pending_cost
        self.note(a.id, label, detail)
        self.stats["site:" + label] += 1
        a.state = PARKED
        self.sched_lock.release()
        a.lock.acquire()
        if a.dead:
            raise Killed()
        a.state = RUNNING
        if a.interrupt_now:
            # the signal arrives between two operations: the pending one is not performed
            a.interrupt_now = False
            raise KeyboardInterrupt()

    def _resume(self, a):
        performed = a.pending
        a.pending = None
        if self.discipline == "vtime":
            self.vtime = max(self.vtime, a.ready_at)       # discrete-event order: jump to the event's time
        else:
            self.vtime += a.pending_cost                   # sequentialised: every step takes its duration
        a.pending_cost = 0.0
        a.resumed_at = self.vtime
        if self.procs is not None:
            self.procs.switch_to(a.attrs.get("proc", ("actor", a.id)))
        if a.state == NEW:
            a.t_start = self.step
            a.state = RUNNING
            a.thread = threading.Thread(target=a._body, name=f"actor{a.id}", daemon=True)
            a.thread.start()
        else:
            a.state = RUNNING
            a.lock.release()
        if not self.sched_lock.acquire(timeout=HANDOFF_TIMEOUT):
            raise HarnessTimeout(f"actor {a.id} ({a.role}) did not yield within {HANDOFF_TIMEOUT}s after {performed}")
        return performed

    def _pick(self, runnable):
        d = self.discipline
        if len(runnable) == 1:
            return runnable[0]
        if d == "serial":
            return runnable[0]
        if d == "script":
            # explicit schedule: segments [actor index, number of steps]; afterwards serial order
            while self.script:
                idx, left = self.script[0]
                a = self.script_actors[idx] if idx < len(self.script_actors) else None
                if left <= 0 or a is None or a not in runnable:
                    self.script.pop(0)
                    continue
                self.script[0][1] = left - 1
                return a
            return runnable[0]
        if d == "vtime":
            return min(runnable, key=lambda a: (a.ready_at, a.id))
        if d == "pct":
            if self.step in self.pct_points and self.last in runnable:
                self.last.priority = min(x.priority for x in self.actors) - 1
            return max(runnable, key=lambda a: (a.priority, -a.id))
        if self.last in runnable:
            order = [self.last] + [a for a in runnable if a is not self.last]
        else:
            order = runnable
        if d == "sticky":
            if self.last in runnable:
                if not self.stream.coin(1, self.sticky_den, "preempt"):
                    return order[0]
                return order[self.stream.draw(1, len(order) - 1, "switch")]
            return order[self.stream.draw(0, len(order) - 1, "next")]
        return order[self.stream.draw(0, len(order) - 1, "sched")]

    def run(self, on_step=None, step_cap=4000):
        """Run until no actor can make a step. Returns when all are done or crashed.

        The step cap is a bound on WORK, not on waiting: a process that sleeps between its steps (polling a lock
        held by a slow or dead process until a lease runs out, say) makes simulated time pass, and "a later load
        succeeds" promises no deadline.  So each time the cap is reached it is extended while the actors have slept
        since the last extension - up to WAIT_HORIZON seconds of sleeping and HARD_STEP_CAP steps in all."""
        sleeps0, hard = self.stats["sleeps"], self.step + HARD_STEP_CAP
        slept_start = getattr(self, "slept_seconds", 0.0)
        while True:
            live = [a for a in self.actors if a.state in (NEW, PARKED)]
            if not live:
                return
            runnable = [a for a in live if a.start_after <= self.step
                        and (a.blocked_on is None or self.locks.available(*a.blocked_on))]
            if not runnable:
                waiting = [a for a in live if a.start_after > self.step]
                if not waiting:
                    raise StepCap("deadlock: every live loader is blocked on a file lock")
                nxt = min(a.start_after for a in waiting)
                self.note(-1, "idle-jump", nxt)
                self.step = nxt
                continue
            a = self._pick(runnable)
            if a.state == PARKED and a.crash_now():
                a.state = CRASHED
                self.locks.release_actor(a.id)       # the kernel drops a dead process's locks
                a.t_end = self.step
                self.note(a.id, "CRASH", a.pending)
                self.stats["crash:" + a.pending] += 1
                self.stats["fault:crash"] += 1
                self.last = None
                if on_step:
                    on_step(a, "CRASH")
                continue
            if a.state == PARKED and a.interrupt_at is not None and a.yields >= a.interrupt_at and not a.interrupted \
                    and not (a.pending or "").startswith("close.implicit"):     # not inside __del__: Python would drop it
                a.interrupted = True
                a.interrupt_now = True
                self.note(a.id, "INTERRUPT", a.pending)
                self.stats["fault:interrupt"] += 1
            performed = self._resume(a)
            self.last = a if a.state == PARKED else None
            self.step += 1
            if on_step:
                on_step(a, performed)
            if self.step >= step_cap:
                slept = self.stats["sleeps"] - sleeps0
                if slept > 0 and self.step < hard and getattr(self, "slept_seconds", 0.0) - slept_start < WAIT_HORIZON:
                    sleeps0 = self.stats["sleeps"]
                    step_cap += 8 * slept + 50
                    self.stats["probe:step-cap-extended-while-waiting"] += 1
                    continue
                raise StepCap(f"step cap {step_cap} reached")

    def reap(self):
        """Release every parked/crashed actor with Killed; join all threads. Call after all verdicts."""
        for a in self.actors:
            if a.thread is not None and a.state in (PARKED, CRASHED):
                a.dead = True
                a.lock.release()
                if not self.sched_lock.acquire(timeout=HANDOFF_TIMEOUT):
                    raise HarnessTimeout(f"actor {a.id} did not unwind")
        for a in self.actors:
            if a.thread is not None:
                a.thread.join(HANDOFF_TIMEOUT)
                if a.thread.is_alive():
                    raise HarnessTimeout(f"actor {a.id} thread still alive")


# ====================================================================== seams
def _actor():
    sim = ACTIVE
    if sim is None:
        return None, None
    a = sim.by_ident.get(_thread.get_ident())
    if a is None or a.dead:
        return sim, None
    return sim, a


def _under_root(sim, p):
    try:
        p = os.fspath(p)
    except TypeError:
        return None
    if isinstance(p, bytes):
        p = os.fsdecode(p)
    if not os.path.isabs(p):
        p = os.path.join(REAL["getcwd"](), p)
    p = os.path.normpath(p)
    if p == sim.root or p.startswith(sim.root + os.sep):
        return p
    return None


_MUTATING = {"os.rename": "rename", "os.mkdir": "mkdir", "os.rmdir": "rmdir", "os.remove": "remove",
             "os.truncate": "truncate", "os.link": "link", "os.symlink": "symlink", "shutil.copyfile": "copyfile",
             "shutil.move": "move", "shutil.copytree": "copytree"}
_WATCH = set(_MUTATING) | {"open", "os.scandir", "os.listdir", "shutil.rmtree"}


def _audit(event, args):
    if ACTIVE is None or event not in _WATCH:
        return
    sim, a = _actor()
    if a is None:
        return
    if event == "open":
        path, mode, flags = args[0], args[1], args[2]
        if isinstance(path, int):
            return
        if mode is None:   # os.open
            writing = bool(flags & (os.O_WRONLY | os.O_RDWR | os.O_CREAT | os.O_TRUNC | os.O_APPEND))
        else:
            writing = any(c in mode for c in "wax+")
        full = _under_root(sim, path) if (os.path.isabs(os.fspath(path)) or mode is not None) else None
        if full is None:
            if mode is None and not os.path.isabs(os.fspath(path)):
                # os.open(name, dir_fd=...) as used by shutil.rmtree: relative to a directory fd
                sim.yield_point(a, "open-fd:rel", os.fspath(path) if not isinstance(path, bytes) else os.fsdecode(path))
            elif writing:
                sim.outside_writes.append((a.id, "open-w", str(path)))
                sim.note(a.id, "OUTSIDE open-w", str(path))
            return
        klass, rel = sim.classify(full)
        sim.yield_point(a, ("open-w:" if writing else "open-r:") + klass, rel)
        if writing:
            a.touch.add(full)
            a.touch.add(os.path.dirname(full))
        return
    if event in _MUTATING:
        op = _MUTATING[event]
        paths = [x for x in args[:2] if isinstance(x, (str, bytes, os.PathLike))] if op in (
            "rename", "link", "symlink", "copyfile", "move", "copytree") else [args[0]]
        labels, rels, outside, fulls, parents = [], [], False, [], []
        for p in paths:
            ps = os.fsdecode(os.fspath(p)) if not isinstance(p, int) else str(p)
            if not os.path.isabs(ps) and op in ("remove", "rmdir") and len(args) > 1 and args[-1] not in (None, -1):
                labels.append("rel")
                rels.append(ps)
                try:        # unlink(name, dir_fd=fd), as shutil.rmtree does it: the directory behind fd changes
                    parent = os.readlink(f"/proc/self/fd/{int(args[-1])}")
                    if _under_root(sim, parent):
                        parents.append(parent)
                except (OSError, TypeError, ValueError):
                    pass
                continue
            full = _under_root(sim, ps)
            if full is None:
                outside = True
                labels.append("OUTSIDE")
                rels.append(ps)
            else:
                k, r = sim.classify(full)
                labels.append(k)
                rels.append(r)
                fulls.append(full)
        if outside:
            sim.outside_writes.append((a.id, op, ">".join(rels)))
            sim.note(a.id, "OUTSIDE " + op, ">".join(rels))
            if all(x == "OUTSIDE" for x in labels):
                return
        sim.yield_point(a, op + ":" + ">".join(labels), ">".join(rels))
        for parent in parents:
            a.touch.add(parent)
        for full in fulls:
            a.touch.add(os.path.dirname(full))
            if op in ("mkdir", "rename", "copyfile", "move", "link", "symlink", "truncate"):
                a.touch.add(full)
        return
    # read-only directory operations
    p = args[0] if args else None
    if isinstance(p, int) or p is None:
        sim.yield_point(a, event.replace("os.", "").replace("shutil.", "") + ":fd", "")
        return
    full = _under_root(sim, p)
    if full is None:
        return
    k, r = sim.classify(full)
    sim.yield_point(a, event.replace("os.", "").replace("shutil.", "") + ":" + k, r)


class WriteProxy:
    """Stands in front of a real file object opened for writing under the run root: every write,
    flush and close is a yield (and crash) point; data reaches the OS exactly when the real
    buffered file puts it there, plus optional mid-write flushes chosen per actor."""

    def __init__(self, f, sim, actor, klass, rel, full=""):
        object.__setattr__(self, "_full", full)
        object.__setattr__(self, "_f", f)
        object.__setattr__(self, "_sim", sim)
        object.__setattr__(self, "_a", actor)
        object.__setattr__(self, "_klass", klass)
        object.__setattr__(self, "_rel", rel)

    def _live(self):
        a = self._a
        return (not a.dead) and ACTIVE is self._sim and self._sim.by_ident.get(_thread.get_ident()) is a

    def write(self, data):
        if not self._live():
            return self._f.write(data)
        n = len(data)
        self._sim.yield_point(self._a, "write:" + self._klass, n)
        self._a.touch.add(self._full)
        split = self._a.attrs.get("split_write", 0)
        if split and n > 1:
            k = max(1, min(n - 1, n * split // 8))
            self._f.write(data[:k])
            self._f.flush()
            self._sim.yield_point(self._a, "write.mid:" + self._klass, k)
            self._f.write(data[k:])
            return n
        return self._f.write(data)

    def flush(self):
        if self._live():
            self._sim.yield_point(self._a, "flush:" + self._klass, "")
        return self._f.flush()

    def close(self):
        if self._f.closed:
            return
        if self._live():
            self._sim.yield_point(self._a, "close:" + self._klass, "")
            self._a.touch.add(self._full)
        return self._f.close()

    def __enter__(self):
        return self

    def __exit__(self, *exc):
        self.close()
        return False

    def __del__(self):
        try:
            f = self._f
        except AttributeError:
            return
        if f.closed:
            return
        if self._live():
            self._sim.yield_point(self._a, "close.implicit:" + self._klass, "")
        f.close()

    def __getattr__(self, name):
        return getattr(object.__getattribute__(self, "_f"), name)

    def __setattr__(self, name, value):
        setattr(self._f, name, value)

    def __iter__(self):
        return iter(self._f)


def _sim_open(file, mode="r", *args, **kwargs):
    sim, a = _actor()
    real = REAL["open"]
    if a is None or isinstance(file, int) or not isinstance(mode, str) or not any(c in mode for c in "wax+"):
        return real(file, mode, *args, **kwargs)
    full = _under_root(sim, file)
    if full is None:
        return real(file, mode, *args, **kwargs)
    f = real(file, mode, *args, **kwargs)       # the audit hook has already yielded in front of this
    klass, rel = sim.classify(full)
    return WriteProxy(f, sim, a, klass, rel, full)


def _mk_stat(name):
    def wrapper(path, *args, **kwargs):
        sim, a = _actor()
        if a is not None and not isinstance(path, int):
            full = _under_root(sim, path)
            if full is not None:
                klass, rel = sim.classify(full)
                sim.yield_point(a, name + ":" + klass, rel)
        return REAL[name](path, *args, **kwargs)
    wrapper.__name__ = name
    return wrapper


def _mk_fdop(name):
    def wrapper(*args, **kwargs):
        sim, a = _actor()
        if a is not None:
            sim.yield_point(a, "fdwrite:" + name, "")
        return REAL[name](*args, **kwargs)
    wrapper.__name__ = name
    return wrapper


def _sim_atexit_register(func, *args, **kwargs):
    """Exit handlers belong to the simulated process: they run when its loader ends - by returning or by an exception,
    SIGINT included - and never when it is killed.  (A process shared by several sequential loads does not exit
    within a run.)"""
    sim, a = _actor()
    # only handlers registered BY THE CODE UNDER TEST are the simulated process's own; the standard library registers
    # interpreter-wide ones lazily (weakref.finalize._exitfunc on the first TemporaryDirectory): those stay real, or the
    # first loader of a worker would run - and then disable - every pending finalizer of the whole interpreter
    caller = sys._getframe(1).f_globals.get("__name__", "")
    if a is None or not (caller == "traffic_weaver" or caller.startswith("traffic_weaver.") or caller == "__main__"
                         or caller.startswith("selftest")):
        return REAL["atexit.register"](func, *args, **kwargs)
    a.attrs.setdefault("atexit", []).append((func, args, kwargs))
    sim.stats["probe:atexit-registered"] += 1
    return func


def _sim_atexit_unregister(func):
    sim, a = _actor()
    if a is None:
        return REAL["atexit.unregister"](func)
    a.attrs["atexit"] = [h for h in a.attrs.get("atexit", []) if h[0] != func]


def _sim_sleep(seconds):
    sim = ACTIVE
    a = sim.by_ident.get(_thread.get_ident()) if sim is not None else None
    if a is None:
        return REAL["sleep"](seconds)
    if a.dead:
        raise Killed()
    if float(seconds) < 0:
        raise ValueError("sleep length must be non-negative")
    sim.stats["sleeps"] += 1
    sim.slept_seconds = getattr(sim, "slept_seconds", 0.0) + float(seconds)
    a.attrs["slept"] = a.attrs.get("slept", 0.0) + float(seconds)
    sim.yield_point(a, "sleep", round(float(seconds), 6), cost=max(0.0, float(seconds)))


def _mk_rename(name):
    def wrapper(src, dst, *args, **kwargs):
        sim, a = _actor()
        if a is not None and sim.other_fs:
            try:
                s_in = os.path.abspath(os.fspath(src)).startswith(sim.other_fs + os.sep)
                d_in = os.path.abspath(os.fspath(dst)).startswith(sim.other_fs + os.sep)
            except TypeError:
                s_in = d_in = False
            if s_in != d_in:
                # the system temporary directory is another mount than the data home: rename cannot cross it
                sim.stats["fault:cross-device-rename"] += 1
                import errno
                raise OSError(errno.EXDEV, "Invalid cross-device link", os.fspath(src), None, os.fspath(dst))
        return REAL[name](src, dst, *args, **kwargs)
    wrapper.__name__ = name
    return wrapper


def _sim_getpid():
    sim, a = _actor()
    if a is None:
        return REAL["getpid"]()
    # every simulated process has its own pid, unless the scenario puts the loaders into separate pid
    # namespaces sharing one volume (containers), where all of them may be pid 1
    return a.attrs.get("pid", 40000 + a.id)


def _mk_clock(name, base):
    def clock():
        sim, a = _actor()
        if a is None:
            return REAL[name]()
        return base + sim.vtime    # the only clock a simulated process can read
    clock.__name__ = name
    return clock


def _sim_urandom(n):
    sim, a = _actor()
    if a is None:
        return REAL["urandom"](n)
    k = a.attrs["entropy"] = a.attrs.get("entropy", 0) + 1
    out = b""
    i = 0
    while len(out) < n:
        out += REAL["sha256"](f"{a.id}:{k}:{i}".encode()).digest()
        i += 1
    return out[:n]


class LockTable:
    """Emulation of advisory whole-file locks (flock / lockf) between simulated processes.  The real calls would
    block the baton holder; here a blocked request polls at yield points, so the scheduler decides who gets the
    lock next, and a killed process drops its locks as the kernel would."""

    def __init__(self):
        self.held = {}          # (dev, ino) -> {"ex": owner | None, "sh": set(owners)}; owner = (actor id, fd)

    @staticmethod
    def key(fd):
        st = os.fstat(fd)
        return (st.st_dev, st.st_ino)

    def purge(self, key):
        ent = self.held.get(key)
        if not ent:
            return
        def alive(owner):
            try:
                return self.key(owner[1]) == key
            except OSError:
                return False
        if ent["ex"] is not None and not alive(ent["ex"]):
            ent["ex"] = None
        ent["sh"] = {o for o in ent["sh"] if alive(o)}

    def release_actor(self, aid):
        for ent in self.held.values():
            if ent["ex"] is not None and ent["ex"][0] == aid:
                ent["ex"] = None
            ent["sh"] = {o for o in ent["sh"] if o[0] != aid}

    def available(self, key, owner, exclusive):
        self.purge(key)
        ent = self.held.get(key)
        if not ent:
            return True
        if exclusive:
            return (ent["ex"] is None or ent["ex"] == owner) and not {o for o in ent["sh"] if o != owner}
        return ent["ex"] is None or ent["ex"] == owner

    def try_lock(self, key, owner, exclusive):
        self.purge(key)
        ent = self.held.setdefault(key, {"ex": None, "sh": set()})
        others_sh = {o for o in ent["sh"] if o != owner}
        if exclusive:
            if (ent["ex"] is None or ent["ex"] == owner) and not others_sh:
                ent["ex"] = owner
                ent["sh"].discard(owner)
                return True
            return False
        if ent["ex"] is None or ent["ex"] == owner:
            if ent["ex"] == owner:
                ent["ex"] = None
            ent["sh"].add(owner)
            return True
        return False

    def unlock(self, key, owner):
        ent = self.held.get(key)
        if ent:
            if ent["ex"] == owner:
                ent["ex"] = None
            ent["sh"].discard(owner)


def _sim_lock(kind):
    def locker(fd, cmd, *rest):
        import fcntl as F
        sim, a = _actor()
        if a is None:
            return REAL[kind](fd, cmd, *rest)
        fdn = fd if isinstance(fd, int) else fd.fileno()
        key = LockTable.key(fdn)
        owner = (a.id, fdn if kind == "flock" else -1)       # POSIX record locks belong to the process
        if cmd & F.LOCK_UN:
            sim.yield_point(a, "lock.release", "")
            sim.locks.unlock(key, owner)
            return None
        exclusive = bool(cmd & F.LOCK_EX)
        sim.yield_point(a, "lock.acquire", "ex" if exclusive else "sh")
        while not sim.locks.try_lock(key, owner, exclusive):
            if cmd & F.LOCK_NB:
                raise BlockingIOError(11, "Resource temporarily unavailable")
            sim.stats["probe:lock-contended"] += 1
            a.blocked_on = (key, owner, exclusive)      # not runnable until the lock can be granted
            try:
                sim.yield_point(a, "lock.wait", "", cost=0.0)
            finally:
                a.blocked_on = None
        return None
    locker.__name__ = kind
    return locker


class _SimNames:
    """Replacement for tempfile._name_sequence: replayable per-actor names."""

    def __init__(self, real):
        self.real = real

    def __iter__(self):
        return self

    def __next__(self):
        sim, a = _actor()
        if a is None:
            return next(self.real)
        a.names_used += 1
        if a.name_collide is not None and a.names_used == 1:
            sim.stats["probe:temp-name-collision-injected"] += 1
            return a.name_collide
        return f"{a.id:02d}n{a.names_used:03d}x"


class _HashProxy:
    def __init__(self, h):
        self._h = h

    def update(self, data):
        self._h.update(data)

    def hexdigest(self):
        d = self._h.hexdigest()
        sim, a = _actor()
        if a is not None and sim.world is not None:
            return sim.world.translate_digest(d)
        return d

    def digest(self):
        return bytes.fromhex(self.hexdigest())

    def copy(self):
        return _HashProxy(self._h.copy())

    def __getattr__(self, name):
        return getattr(self._h, name)


def _sim_sha256(*args, **kwargs):
    h = REAL["sha256"](*args, **kwargs)
    sim, a = _actor()
    if a is None:
        return h
    return _HashProxy(h)


def _sim_hash_new(name, *args, **kwargs):
    h = REAL["hash_new"](name, *args, **kwargs)
    sim, a = _actor()
    if a is None or str(name).lower().replace("-", "") != "sha256":
        return h
    return _HashProxy(h)


def _net_entry(fn_name):
    def entry(*args, **kwargs):
        sim = ACTIVE
        a = sim.by_ident.get(_thread.get_ident()) if sim is not None else None
        if a is None:
            if sim is not None and getattr(sim, "probe_active", False):
                raise NetworkTouched(f"{fn_name} during an offline probe")
            raise NetworkEscape(f"{fn_name} called outside a simulated actor: {args[:1]}")
        if a.dead:
            raise Killed()
        handler = getattr(sim, "net_handler", None)
        if handler is None:
            raise NetworkEscape(f"{fn_name}: no simulated network in this run")
        return handler(sim, a, fn_name, args, kwargs)
    entry.__name__ = fn_name
    return entry


def _no_connect(self, *args, **kwargs):
    raise NetworkEscape(f"socket.connect{args}")


def install():
    """Install all seams (idempotent, per process)."""
    global _INSTALLED
    if _INSTALLED:
        return
    _INSTALLED = True
    sys.dont_write_bytecode = True
    REAL.update(open=builtins.open, stat=os.stat, lstat=os.lstat, sleep=time.sleep, getcwd=os.getcwd,
                urlretrieve=urllib.request.urlretrieve, urlopen=urllib.request.urlopen, sha256=hashlib.sha256,
                hash_new=hashlib.new, connect=socket.socket.connect)
    REAL.update(getpid=os.getpid, time=time.time, monotonic=time.monotonic, perf_counter=time.perf_counter,
                urandom=os.urandom)
    REAL["rename"], REAL["replace"] = os.rename, os.replace
    os.rename = _mk_rename("rename")
    os.replace = _mk_rename("replace")
    os.getpid = _sim_getpid
    REAL["utime"] = os.utime
    time.time = _mk_clock("time", CLOCK_BASE)
    time.monotonic = _mk_clock("monotonic", 1000.0)
    time.perf_counter = _mk_clock("perf_counter", 1000.0)
    os.urandom = _sim_urandom
    try:
        import fcntl
        REAL["flock"], REAL["lockf"] = fcntl.flock, fcntl.lockf
        fcntl.flock = _sim_lock("flock")
        fcntl.lockf = _sim_lock("lockf")
    except ImportError:
        pass
    builtins.open = _sim_open
    io.open = _sim_open
    os.stat = _mk_stat("stat")
    os.lstat = _mk_stat("lstat")
    for name in ("sendfile", "copy_file_range", "write", "pwrite", "writev", "ftruncate"):
        if hasattr(os, name):
            REAL[name] = getattr(os, name)
            setattr(os, name, _mk_fdop(name))
    time.sleep = _sim_sleep
    import atexit
    REAL["atexit.register"], REAL["atexit.unregister"] = atexit.register, atexit.unregister
    atexit.register, atexit.unregister = _sim_atexit_register, _sim_atexit_unregister
    urllib.request.urlretrieve = _net_entry("urlretrieve")
    urllib.request.urlopen = _net_entry("urlopen")
    hashlib.sha256 = _sim_sha256
    hashlib.new = _sim_hash_new
    socket.socket.connect = _no_connect
    tempfile._name_sequence = _SimNames(tempfile._RandomNameSequence())
    sys.addaudithook(_audit)
    old_hook = sys.unraisablehook

    def quiet_unraisable(u):
        if isinstance(u.exc_value, Killed):
            return
        old_hook(u)
    sys.unraisablehook = quiet_unraisable
    # module-level aliases created by `from x import y` inside the library under test
    import importlib
    for modname in ("traffic_weaver.datasets._base",):
        try:
            m = importlib.import_module(modname)
        except Exception:
            continue
        if hasattr(m, "urlretrieve"):
            m.urlretrieve = urllib.request.urlretrieve
        if hasattr(m, "urlopen"):
            m.urlopen = urllib.request.urlopen
        if hasattr(m, "sleep"):
            m.sleep = _sim_sleep
        if hasattr(m, "sha256"):
            m.sha256 = _sim_sha256


def activate(sim):
    global ACTIVE
    ACTIVE = sim


def deactivate():
    global ACTIVE
    ACTIVE = None
