"""The choice stream: one integer decides everything.

Every decision of a simulated run (scenario, arguments, fault plan, schedule) is obtained
through ``Stream.draw(lo, hi)``.  In search mode the values come from ``random.Random(seed)``
and are recorded; in replay mode they come from a recorded list (clamped into range,
``lo`` once the list is exhausted).  Generators are written so that ``lo`` is the simplest
choice, which is what makes the list-level minimiser (``shrink``) meaningful.

Nothing here reads a clock or touches global state except ``shrink``'s own budget clock,
which only decides when to stop minimising, never what a run does.
"""
import hashlib
import random
import time


def run_seed(verif_seed, prop, index):
    h = hashlib.sha256(f"{verif_seed}:{prop}:{index}".encode()).digest()
    return int.from_bytes(h[:8], "big")


class Stream:
    __slots__ = ("rng", "replay", "pos", "rec", "prefix")

    def __init__(self, seed=None, replay=None, prefix=None):
        self.rng = random.Random(seed) if replay is None else None
        self.replay = list(replay) if replay is not None else None
        self.prefix = list(prefix) if prefix else None
        self.pos = 0
        self.rec = []

    def draw(self, lo, hi, label=None):
        if hi < lo:
            raise ValueError(f"empty range {lo}..{hi} ({label})")
        p = self.pos
        self.pos = p + 1
        if self.replay is not None:
            if p < len(self.replay):
                v = self.replay[p]
                if v < lo:
                    v = lo
                elif v > hi:
                    v = hi
            else:
                v = lo
        elif self.prefix is not None and p < len(self.prefix):
            v = min(max(self.prefix[p], lo), hi)
        else:
            v = self.rng.randint(lo, hi) if hi > lo else lo
        self.rec.append(v)
        return v

    # -- helpers; each is a thin layer over draw so the record stays a list of ints --
    def coin(self, num, den, label=None):
        """True with probability num/den; the simplest value (0) means False."""
        return self.draw(0, den - 1, label) >= den - num

    def pick(self, seq, label=None):
        return seq[self.draw(0, len(seq) - 1, label)]

    def weighted(self, weights, label=None):
        """Index drawn with the given integer weights; index 0 is the simplest."""
        total = sum(weights)
        v = self.draw(0, total - 1, label)
        acc = 0
        for i, w in enumerate(weights):
            acc += w
            if v < acc:
                return i
        return len(weights) - 1

    def lattice(self, lo, hi, den, label=None):
        """A float k/den with lo <= k/den <= hi (lo, hi integers)."""
        return self.draw(lo * den, hi * den, label) / den


def shrink(run_fn, choices, max_execs=400, max_seconds=30.0):
    """Minimise a failing choice list.

    ``run_fn(list) -> (fails_same_class: bool, normalised_list)``.  A candidate is accepted
    only if it fails with the same violation class.  Returns (best_list, executions).
    """
    t0 = time.monotonic()
    execs = 0
    best = list(choices)

    def attempt(cand):
        nonlocal execs, best
        if execs >= max_execs or time.monotonic() - t0 > max_seconds:
            return False
        execs += 1
        ok, norm = run_fn(cand)
        if ok:
            norm = list(norm)
            # strip trailing zeros: an exhausted replay list yields lo anyway
            if len(norm) <= len(best) or sum(norm) < sum(best):
                best = norm
            else:
                best = list(cand)
            return True
        return False

    # normalise first
    attempt(best)
    improved = True
    while improved and execs < max_execs and time.monotonic() - t0 <= max_seconds:
        improved = False
        # 1. delete blocks
        size = max(1, len(best) // 2)
        while size >= 1:
            i = 0
            while i + size <= len(best):
                cand = best[:i] + best[i + size:]
                if attempt(cand):
                    improved = True
                else:
                    i += size
                if execs >= max_execs:
                    break
            size //= 2
        # 2. zero blocks
        size = max(1, len(best) // 2)
        while size >= 1:
            i = 0
            while i + size <= len(best):
                if any(best[i:i + size]):
                    cand = best[:i] + [0] * size + best[i + size:]
                    if attempt(cand):
                        improved = True
                i += size
            size //= 2
        # 3. lower individual values
        i = 0
        while i < len(best):
            v = best[i]
            if v > 0:
                for nv in (v // 2, v - 1):
                    if nv < v and i < len(best) and best[i] == v:
                        cand = list(best)
                        cand[i] = nv
                        if attempt(cand):
                            improved = True
                            break
            i += 1
    while best and best[-1] == 0:
        best.pop()
    return best, execs
