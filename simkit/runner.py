"""Batch driver shared by every check: sharding over forked workers, merging by run index,
known-findings filter, minimisation, replay files, fresh-interpreter confirmation, evidence.

An *engine* is a module-like object with

    PROPERTY            property id, e.g. "C19"
    LEVEL               evidence level
    plan(tier, seed)    -> list of params dicts (one per run unit; index in the list = run index)
    run_unit(params, seed) -> UnitOutcome     (may contain several simulated executions)
    run_single(params, choices, keep_log) -> Result   (one simulated execution, replayable)
    describe()          -> dict(rule=..., assumptions=[...], components={...}, extra={...})

One unit's result depends only on (params, seed); units are dealt to workers in chunks and
merged by index, so outcome and evidence are the same at any worker count.
"""
import atexit
import collections
import faulthandler
import hashlib
import json
import multiprocessing
import os
import pickle
import shutil
import signal
import subprocess
import sys
import tempfile
import time
import traceback
from concurrent.futures import ProcessPoolExecutor, as_completed

from . import stream as S

VERIF_DIR = os.path.dirname(os.path.dirname(os.path.abspath(__file__)))
EXIT_OK, EXIT_VIOLATION, EXIT_HARNESS, EXIT_TIMEOUT = 0, 1, 2, 3


def _scratch_base():
    for cand in ("/dev/shm", "/var/tmp", tempfile.gettempdir()):
        if os.path.isdir(cand) and os.access(cand, os.W_OK):
            return cand
    return tempfile.gettempdir()


_SCRATCH = None


def scratch_root():
    """Scratch root of this batch: $VERIF_SCRATCH if a parent process set it (pool workers, replay children),
    else a new directory owned - and removed at exit - by this process.  Stale roots of dead processes are swept."""
    global _SCRATCH
    inherited = os.environ.get("VERIF_SCRATCH")
    if inherited and os.path.isdir(inherited):
        return inherited
    if _SCRATCH is None or not _SCRATCH.endswith(f"-{os.getpid()}"):
        base = _scratch_base()
        for name in os.listdir(base):
            if name.startswith("twv-"):
                pid = name.split("-")[-1]
                if pid.isdigit() and not os.path.exists(f"/proc/{pid}"):
                    shutil.rmtree(os.path.join(base, name), ignore_errors=True)
        _SCRATCH = os.path.join(base, f"twv-{os.getpid()}")
        shutil.rmtree(_SCRATCH, ignore_errors=True)
        os.makedirs(_SCRATCH, exist_ok=True)
        atexit.register(shutil.rmtree, _SCRATCH, True)
        os.environ["VERIF_SCRATCH"] = _SCRATCH
    return _SCRATCH


class HarnessError(Exception):
    """A bug or determinism leak in the machinery itself; never reported as a violation."""


class Result:
    """Outcome of one simulated execution."""
    __slots__ = ("violation", "digest", "nontrivial", "stats", "vtime", "sample", "log", "choices", "steps", "marks")

    def __init__(self):
        self.violation = None      # None | dict(cls=, key=, msg=)
        self.digest = 0
        self.nontrivial = False
        self.stats = collections.Counter()
        self.vtime = 0.0
        self.sample = None
        self.log = None
        self.choices = []
        self.steps = 0
        self.marks = {}            # name -> hashable, for distinct-measure sets


class UnitOutcome:
    def __init__(self):
        self.evaluations = 0
        self.digests = set()        # digests of non-trivial executions
        self.all_digests = 0
        self.stats = collections.Counter()
        self.vtime = 0.0
        self.steps = 0
        self.samples = []
        self.violations = []        # dicts: params, choices, cls, key, msg
        self.native_crashes = []    # (run index, signal) of units whose worker was killed by a native crash
        self.sets = collections.defaultdict(set)   # named distinct-measure sets

    def add(self, params, res):
        self.evaluations += 1
        if res.nontrivial:
            self.digests.add(res.digest)
        self.stats.update(res.stats)
        self.vtime += res.vtime
        self.steps += res.steps
        for k, m in res.marks.items():
            self.sets[k].add(m)
        if res.sample is not None and len(self.samples) < 1:
            self.samples.append(res.sample)
        if res.violation is not None:
            v = dict(res.violation)
            v["params"] = params
            v["choices"] = list(res.choices)
            self.violations.append(v)

    def merge(self, other):
        self.evaluations += other.evaluations
        self.digests |= other.digests
        self.stats.update(other.stats)
        self.vtime += other.vtime
        self.steps += other.steps
        for k, s in other.sets.items():
            self.sets[k] |= s
        room = 3 - len(self.samples)
        if room > 0:
            self.samples.extend(other.samples[:room])
        self.violations.extend(other.violations)


_ENGINES = {}


def register(name, engine):
    _ENGINES[name] = engine


def get_engine(name):
    if name not in _ENGINES:
        import importlib
        importlib.import_module("machines")
    return _ENGINES[name]


def _work(engine_name, verif_seed, chunk):
    try:
        faulthandler.enable()                  # a crash of native code (FITPACK, ...) leaves a Python traceback
        faulthandler.dump_traceback_later(1800, exit=True)
    except Exception:                          # stderr without a file descriptor (captured): go without
        pass
    try:
        eng = get_engine(engine_name)
        out = UnitOutcome()
        crash_at = os.environ.get("VERIF_TEST_CRASH_INDEX")
        for index, params in chunk:
            if crash_at is not None and index == int(crash_at):
                os.kill(os.getpid(), signal.SIGSEGV)      # self-test of the native-crash isolation
            seed = S.run_seed(verif_seed, engine_name, index)
            uo = eng.run_unit(params, seed)
            for v in uo.violations:
                v["run_index"] = index
            out.merge(uo)
        return out
    finally:
        try:
            faulthandler.cancel_dump_traceback_later()
        except Exception:
            pass


def load_known():
    path = os.path.join(VERIF_DIR, "known_findings.json")
    if not os.path.exists(path):
        return []
    with open(path) as f:
        return json.load(f).get("findings", [])


def _is_known(known, prop, v):
    for k in known:
        if k.get("status") == "known" and k.get("property") == prop and k.get("class") == v["cls"] \
                and k.get("key") == v["key"]:
            return k
    return None


def repo_src():
    return os.environ.get("VERIF_REPO", "/repo/src")


def repo_head():
    try:
        return subprocess.run(["git", "-C", os.path.dirname(repo_src()), "rev-parse", "HEAD"], capture_output=True,
                              text=True, timeout=10).stdout.strip()
    except Exception:
        return ""


def write_replay(engine_name, eng, v, verif_seed, minimised, res):
    os.makedirs(os.path.join(VERIF_DIR, "replays"), exist_ok=True)
    tag = hashlib.sha256(json.dumps([v["cls"], v["key"], minimised, v["params"]], sort_keys=True,
                                    default=str).encode()).hexdigest()[:10]
    path = os.path.join(VERIF_DIR, "replays", f"{eng.PROPERTY}-{engine_name}-{verif_seed}-{v.get('run_index', 0)}-{tag}.json")
    doc = {
        "property": eng.PROPERTY, "engine": engine_name, "class": v["cls"], "key": v["key"], "message": res.violation["msg"],
        "verif_seed": verif_seed, "run_index": v.get("run_index", 0), "params": v["params"], "choices": minimised,
        "original_choices_len": len(v["choices"]), "scenario": res.sample, "event_log": res.log,
        "digest": f"{res.digest:016x}", "repo_head": repo_head(),
        "replay_cmd": f"./vcheck replay {os.path.relpath(path, VERIF_DIR)}",
    }
    with open(path, "w") as f:
        json.dump(doc, f, indent=1, default=str)
    return path


def replay_file(path, confirm=False):
    """Re-execute a replay file. Prints a REPLAY line; returns the exit code."""
    with open(path) as f:
        doc = json.load(f)
    eng = get_engine(doc["engine"])
    res = eng.run_single(doc["params"], doc["choices"], keep_log=True)
    if res.violation is None:
        print(f"REPLAY no-violation digest={res.digest:016x} (recorded class={doc['class']})")
        return EXIT_HARNESS if confirm else EXIT_OK
    same_cls = res.violation["cls"] == doc["class"] and res.violation["key"] == doc["key"]
    same_digest = f"{res.digest:016x}" == doc["digest"]
    print(f"REPLAY class={res.violation['cls']} key={res.violation['key']} digest={res.digest:016x} "
          f"same_class={same_cls} same_digest={same_digest}")
    print(f"  {res.violation['msg']}")
    if confirm and not (same_cls and same_digest):
        return EXIT_HARNESS
    print(f"VIOLATION property={doc['property']} replay={path}")
    return EXIT_VIOLATION


def _confirm_fresh(path):
    env = dict(os.environ)
    env["PYTHONHASHSEED"] = "4242"      # deliberately different from the search process
    env["VERIF_NO_REEXEC"] = "1"
    p = subprocess.run([sys.executable, os.path.join(VERIF_DIR, "vcheck"), "replay", path, "--confirm"],
                       capture_output=True, text=True, env=env, timeout=600)
    return p.returncode == EXIT_VIOLATION, p.stdout + p.stderr


def _child(engine_name, verif_seed, chunk, out_path):
    """Body of one forked worker: run a chunk, leave the pickled outcome (or the traceback) in out_path."""
    code = 0
    try:
        out = _work(engine_name, verif_seed, chunk)
        with open(out_path + ".tmp", "wb") as f:
            pickle.dump(("ok", out), f, protocol=pickle.HIGHEST_PROTOCOL)
    except BaseException:          # noqa: B036 - reported to the parent, which turns it into HARNESS-ERROR
        code = 3
        with open(out_path + ".tmp", "wb") as f:
            pickle.dump(("error", traceback.format_exc()), f)
    os.replace(out_path + ".tmp", out_path)
    sys.stdout.flush()
    sys.stderr.flush()
    os._exit(code)


def run_batch(engine_name, verif_seed, units, workers, known=(), prop=None, deadline=None, t0=None):
    """Execute `units` (list of params; index = run index) on `workers` forked children, one chunk per child, and merge
    by chunk index, so the merged outcome is independent of the worker count.  A child killed by a signal (a crash of
    native third-party code such as FITPACK) does not take the batch down: its chunk is split and re-run until the
    crashing unit is isolated; that unit is skipped and counted (`native-crash`), never reported as a violation -
    a crash that depends on the heap layout cannot be replayed."""
    t0 = t0 or time.monotonic()
    indexed = list(enumerate(units))
    nchunks = max(1, min(len(indexed), 128))
    chunks = [(str(i), indexed[i::nchunks]) for i in range(nchunks)]
    total = UnitOutcome()
    stopped_early = False
    if workers == 1 and os.environ.get("VERIF_INPROCESS"):
        for _, ch in chunks:
            total.merge(_work(engine_name, verif_seed, ch))
            if any(not _is_known(known, prop, v) for v in total.violations):
                stopped_early = True
                break
        return total, stopped_early
    root = scratch_root()
    pending = collections.deque(chunks)
    running = {}            # pid -> (key, chunk, out_path)
    done = {}
    crashed_units = []
    harness_error = None
    try:
        while (pending or running) and harness_error is None:
            while pending and len(running) < workers and not stopped_early:
                key, ch = pending.popleft()
                out_path = os.path.join(root, f"res-{key}.pkl")
                sys.stdout.flush()
                sys.stderr.flush()
                pid = os.fork()
                if pid == 0:
                    _child(engine_name, verif_seed, ch, out_path)
                running[pid] = (key, ch, out_path)
            if not running:
                break
            pid, status = os.wait()
            if pid not in running:
                continue
            key, ch, out_path = running.pop(pid)
            if os.WIFSIGNALED(status) or not os.path.exists(out_path):
                if len(ch) > 1:             # isolate the crashing unit
                    h = len(ch) // 2
                    pending.appendleft((key + "b", ch[h:]))
                    pending.appendleft((key + "a", ch[:h]))
                else:
                    crashed_units.append((ch[0][0], os.WTERMSIG(status) if os.WIFSIGNALED(status) else -1))
                continue
            with open(out_path, "rb") as f:
                kind, payload = pickle.load(f)
            os.remove(out_path)
            if kind == "error":
                harness_error = payload
                break
            done[key] = payload
            unknown = any(not _is_known(known, prop, v) for v in payload.violations)
            over = deadline is not None and time.monotonic() - t0 > deadline
            if unknown or over:
                stopped_early = True
                pending.clear()
    finally:
        for pid in list(running):
            try:
                os.kill(pid, signal.SIGKILL)
                os.waitpid(pid, 0)
            except OSError:
                pass
    if harness_error is not None:
        raise HarnessError("worker failed:\n" + harness_error)
    for key in sorted(done, key=lambda k: (int("".join(c for c in k if c.isdigit())), k)):
        total.merge(done[key])
    if crashed_units:
        total.stats["native-crash:units-skipped"] += len(crashed_units)
        total.native_crashes = sorted(crashed_units)
    return total, stopped_early


def run_check(engine_name, tier, verif_seed, workers=None, evidence=True, quiet=False):
    t0 = time.monotonic()
    scratch_root()          # created (and exported) before the pool forks; removed at exit of this process
    eng = get_engine(engine_name)
    prop = eng.PROPERTY
    workers = workers or int(os.environ.get("VERIF_WORKERS", "0")) or min(16, os.cpu_count() or 1)
    units = eng.plan(tier, verif_seed)
    deadline = float(os.environ.get("VERIF_BUDGET_S", "0")) or None
    known = load_known()
    total, stopped_early = run_batch(engine_name, verif_seed, units, workers, known, prop, deadline, t0)
    wall_search = time.monotonic() - t0

    # ---- violations: known-findings filter, minimise, replay file, fresh confirmation ----
    groups = collections.OrderedDict()
    for v in sorted(total.violations, key=lambda v: (v.get("run_index", 0), len(v["choices"]))):
        groups.setdefault((v["cls"], v["key"]), v)
    reported = []
    known_hits = []
    harness_problem = None
    per_class = collections.Counter()
    for (cls, key), v in list(groups.items()):
        k = _is_known(known, prop, v)
        if k is None:
            per_class[cls] += 1
            if per_class[cls] > 2 or len(reported) >= 6:
                continue
        if k is not None:
            known_hits.append(k)
            print(f"KNOWN-FINDING: property={prop} {cls} {key}: {k.get('what', '')}")
            continue

        def run_fn(cand, v=v, cls=cls, key=key):
            r = eng.run_single(v["params"], cand, keep_log=False)
            ok = r.violation is not None and r.violation["cls"] == cls and r.violation["key"] == key
            return ok, r.choices

        minimised, execs = S.shrink(run_fn, v["choices"])
        res = eng.run_single(v["params"], minimised, keep_log=True)
        if res.violation is None or res.violation["cls"] != cls:
            # minimised list must fail; fall back to the original
            minimised = list(v["choices"])
            res = eng.run_single(v["params"], minimised, keep_log=True)
        if res.violation is None:
            harness_problem = f"violation {cls} {key} at run {v.get('run_index')} did not reproduce in-process"
            continue
        path = write_replay(engine_name, eng, v, verif_seed, minimised, res)
        ok, out = _confirm_fresh(path)
        if not ok:
            harness_problem = f"replay {path} did not reproduce in a fresh interpreter:\n{out}"
            continue
        reported.append((cls, key, path, res.violation["msg"], len(v["choices"]), len(minimised), execs))
    wall = time.monotonic() - t0

    if evidence:
        write_evidence(eng, engine_name, tier, verif_seed, total, wall, wall_search, workers, len(units), stopped_early,
                       reported, known_hits)
    if not quiet:
        rate = total.evaluations / max(wall_search, 1e-9) * 3600
        print(f"[{prop}/{engine_name}] tier={tier} seed={verif_seed} units={len(units)} executions={total.evaluations} "
              f"distinct_nontrivial={len(total.digests)} steps={total.steps} sim_time={total.vtime:.0f}s "
              f"wall={wall:.1f}s ({rate:,.0f} executions/hour, {workers} workers)")
    if harness_problem:
        print(f"HARNESS-ERROR property={prop} {harness_problem}")
        return EXIT_HARNESS
    for cls, key, path, msg, n0, n1, execs in reported:
        print(f"  violation class={cls} key={key}: {msg}")
        print(f"  minimised {n0} -> {n1} choices in {execs} executions; replay confirmed in a fresh interpreter")
        print(f"VIOLATION property={prop} replay={path}")
    return EXIT_VIOLATION if reported else EXIT_OK


def write_evidence(eng, engine_name, tier, verif_seed, total, wall, wall_search, workers, n_units, stopped_early,
                   reported, known_hits):
    d = eng.describe()
    cov = {
        "evaluations": int(total.evaluations),
        "distinct_nontrivial": int(len(total.digests)),
        "rule": d["rule"],
        "samples": total.samples[:3],
        "units_planned": n_units,
        "stopped_early": bool(stopped_early),
        "scheduler_steps": int(total.steps),
        "simulated_seconds_covered": round(total.vtime, 3),
        "executions_per_hour": int(total.evaluations / max(wall_search, 1e-9) * 3600),
        "workers": workers,
        "seeds": f"run i uses sha256('{verif_seed}:{engine_name}:i')[:8]; i in 0..{n_units - 1}",
        "counters": {k: int(v) for k, v in sorted(total.stats.items())},
        "distinct_measures": {k: len(s) for k, s in sorted(total.sets.items())},
        "components": d.get("components", {}),
        "known_findings_hit": [f"{k.get('class')} {k.get('key')}" for k in known_hits],
        "native_crashes_skipped": [{"run_index": i, "signal": sg} for i, sg in getattr(total, "native_crashes", [])],
    }
    cov.update(d.get("extra", {}))
    if hasattr(eng, "probe_warnings"):
        cov["probe_warnings"] = eng.probe_warnings(tier, total.stats)
    doc = {
        "property_id": eng.PROPERTY, "tier": tier, "seed": int(verif_seed), "level": eng.LEVEL, "coverage": cov,
        "assumptions": d.get("assumptions", []), "wall_s": round(wall, 2), "violations": len(reported),
        "engine": engine_name, "repo_head": repo_head(),
    }
    path = os.path.join(VERIF_DIR, "evidence", f"{eng.PROPERTY}.json")
    os.makedirs(os.path.dirname(path), exist_ok=True)
    tmp = path + ".tmp"
    with open(tmp, "w") as f:
        json.dump(doc, f, indent=1, default=str)
    os.replace(tmp, path)
