#!/bin/sh
# setup_cmd: nothing is compiled or fetched; verify the interpreter and imports the checks need.
set -e
cd "$(dirname "$0")"
/venv/bin/python - <<'PY'
import sys
sys.path.insert(0, '/repo/src')
import numpy, scipy, traffic_weaver
print('setup ok: python', sys.version.split()[0], 'numpy', numpy.__version__, 'scipy', scipy.__version__)
PY
mkdir -p evidence replays
