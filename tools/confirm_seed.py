#!/venv/bin/python
"""usage: tools/confirm_seed.py <source-dir-with-patch.diff-and-demo.py> <seed-id> <PROPERTY> [--needs "..."] [--check ID ...]
Confirms a seeded change independently (fresh scratch worktree of /repo HEAD outside /repo and /verif):
  1. demo.py exits 0 on the unchanged tree and non-zero with the patch,
  2. the pinned baseline's stable tests all still pass with the patch,
  3. which of our quick checks report a VIOLATION with the patch (scratch copy via VERIF_REPO),
then stores patch.diff, demo.py and meta.json under /verif/seeded/<seed-id>/ and removes the worktree."""
import argparse
import json
import os
import shutil
import subprocess
import sys
import xml.etree.ElementTree as ET

HERE = os.path.dirname(os.path.dirname(os.path.abspath(__file__)))


def sh(cmd, cwd=None, env=None, timeout=1800):
    p = subprocess.run(cmd, shell=True, cwd=cwd, env=env, capture_output=True, text=True, timeout=timeout)
    return p.returncode, p.stdout + p.stderr


def stable_ok(wt):
    base = json.load(open("/root/.vp/BASELINE.json"))
    junit = os.path.join(wt, "junit.xml")
    sh(f"/venv/bin/python -m pytest -q -p no:cacheprovider --timeout=900 --continue-on-collection-errors "
       f"--ignore=demo.py --junitxml={junit}", cwd=wt)
    res = {}
    for tc in ET.parse(junit).iter("testcase"):
        res[f"{tc.get('classname')}::{tc.get('name')}"] = not any(c.tag in ("failure", "error", "skipped") for c in tc)
    missing = [n for n in base["stable_pass"] if not res.get(n)]
    return missing, sum(res.values()), len(res)


def main():
    ap = argparse.ArgumentParser()
    ap.add_argument("src")
    ap.add_argument("seed_id")
    ap.add_argument("prop")
    ap.add_argument("--needs", default="")
    ap.add_argument("--check", nargs="*", default=None)
    ap.add_argument("--budget-env", default="")
    ap.add_argument("--note", default="")
    a = ap.parse_args()
    patch = os.path.join(a.src, "patch.diff")
    demo = os.path.join(a.src, "demo.py")
    wt = f"/tmp/confirm-{a.seed_id}"
    sh(f"git -C /repo worktree remove --force {wt}")
    rc, out = sh(f"git -C /repo worktree add -q --detach {wt} HEAD")
    meta = {"seed_id": a.seed_id, "breaks_property": a.prop, "needs_to_manifest": a.needs,
            "repo_head": sh("git -C /repo rev-parse HEAD")[1].strip(), "ran": []}
    if a.note:
        meta["note"] = a.note
    try:
        shutil.copy(demo, os.path.join(wt, "demo.py"))
        env = dict(os.environ, PYTHONPATH="src", PYTHONDONTWRITEBYTECODE="1")
        rc0, out0 = sh("/venv/bin/python demo.py", cwd=wt, env=env, timeout=900)
        meta["ran"].append({"cmd": "PYTHONPATH=src /venv/bin/python demo.py  (unchanged tree)", "exit": rc0})
        rc, out = sh(f"git apply {patch}", cwd=wt)
        if rc != 0:
            print("patch does not apply:", out)
            return 2
        rc1, out1 = sh("/venv/bin/python demo.py", cwd=wt, env=env, timeout=900)
        meta["ran"].append({"cmd": "PYTHONPATH=src /venv/bin/python demo.py  (with patch)", "exit": rc1,
                            "tail": out1.strip().splitlines()[-3:]})
        missing, npass, ntot = stable_ok(wt)
        meta["ran"].append({"cmd": "pinned pytest command with patch", "stable_tests_failing": missing, "passed": npass,
                            "total": ntot})
        meta["demo_passes_without_and_fails_with"] = (rc0 == 0 and rc1 != 0)
        meta["existing_suite_still_passes"] = not missing
    finally:
        sh(f"git -C /repo worktree remove --force {wt}")
        shutil.rmtree(wt, ignore_errors=True)
    checks = a.check or [a.prop]
    meta["checks"] = {}
    for cid in checks:
        env = dict(os.environ)
        for kv in a.budget_env.split():
            k, v = kv.split("=")
            env[k] = v
        rc, out = sh(f"{HERE}/tools/try_patch.sh {patch} {cid}", env=env, timeout=3600)
        lines = [l for l in out.splitlines() if "violation class=" in l]
        caught = any(l.startswith("VIOLATION property=") for l in out.splitlines())
        meta["checks"][cid] = {"caught": caught, "cmd": f"tools/try_patch.sh seeded/{a.seed_id}/patch.diff {cid}",
                               "first_violation": lines[0].strip()[:500] if lines else None}
    ok = meta["demo_passes_without_and_fails_with"] and meta["existing_suite_still_passes"]
    print(json.dumps(meta, indent=1))
    if not ok:
        print("NOT KEPT: claims not confirmed")
        return 1
    dst = os.path.join(HERE, "seeded", a.seed_id)
    os.makedirs(dst, exist_ok=True)
    shutil.copy(patch, os.path.join(dst, "patch.diff"))
    shutil.copy(demo, os.path.join(dst, "demo.py"))
    with open(os.path.join(dst, "meta.json"), "w") as f:
        json.dump(meta, f, indent=1)
    print("kept in", dst)
    return 0


if __name__ == "__main__":
    sys.exit(main())
