#!/bin/sh
# Full local validation before committing evidence: self-tests, seeded battery, then the six quick checks (which
# rewrite evidence/*.json), then schema validation of MANIFEST.json and the evidence files.
cd "$(dirname "$0")/.." || exit 2
set -x
./vcheck selftest kernel || exit 1
VERIF_DET_N=${VERIF_DET_N:-200} ./vcheck selftest determinism || exit 1
./vcheck selftest sensitivity | tail -8
./vcheck selftest soundness | tail -4
tools/battery.sh | tail -90
for p in C08 C09 C15 C18 C19 C20; do ./vcheck $p --tier quick || echo "CHECK $p FAILED"; done
python3-vt - <<'PY'
import json, jsonschema, glob
jsonschema.validate(json.load(open('/verif/MANIFEST.json')), json.load(open('/root/.vp/MANIFEST.schema.json')))
s = json.load(open('/root/.vp/EVIDENCE.schema.json'))
for f in sorted(glob.glob('/verif/evidence/*.json')):
    jsonschema.validate(json.load(open(f)), s)
    print('valid', f)
PY
