#!/bin/sh
# usage: tools/try_patch.sh [--in-repo] <patch.diff> <ID> [<ID>...]
# Runs the quick checks against the tree with a seeded change applied.
#   default    : the change is applied to a scratch copy of /repo/src under /dev/shm (VERIF_REPO), removed afterwards
#   --in-repo  : the change is applied to /repo itself (git apply) and reverted on every exit path
MODE=scratch
if [ "$1" = "--in-repo" ]; then MODE=repo; shift; fi
PATCH="$(readlink -f "$1")"; shift
cd "$(dirname "$0")/.." || exit 2
if [ "$MODE" = repo ]; then
  if [ -n "$(git -C /repo status --porcelain --untracked-files=no)" ]; then echo "refusing: /repo has local changes"; exit 2; fi
  trap 'git -C /repo checkout -- .' EXIT INT TERM
  git -C /repo apply "$PATCH" || { echo "patch does not apply"; exit 2; }
else
  S=/dev/shm/twv-try-$$
  trap 'rm -rf "$S"' EXIT INT TERM
  mkdir -p "$S" && git -C /repo archive HEAD src | tar -x -C "$S" || exit 2
  (cd "$S" && git apply --unsafe-paths --directory="$S" "$PATCH" 2>/dev/null || patch -s -p1 < "$PATCH") || { echo "patch does not apply"; exit 2; }
  export VERIF_REPO="$S/src"
fi
for id in "$@"; do
  echo "=== $id with $PATCH ($MODE)"
  timeout 1800 ./vcheck "$id" --no-evidence 2>&1 | grep -E "VIOLATION|violation class|HARNESS|KNOWN|^\[" | cut -c1-600
done
