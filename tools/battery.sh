#!/bin/sh
# Runs every quick check on the unchanged tree, then every seeded change against the check(s) of its property.
cd "$(dirname "$0")/.." || exit 2
echo "== unchanged tree"
for p in C08 C09 C15 C18 C19 C20; do ./vcheck $p --no-evidence 2>&1 | grep -E "VIOLATION|HARNESS|^\[" | cut -c1-260; done
echo "== seeded changes"
for d in seeded/*/; do [ -f "$d/meta.json" ] || continue
  id=$(basename "$d"); prop=$(python3 -c "import json;print(json.load(open('$d/meta.json'))['breaks_property'])")
  out=$(tools/try_patch.sh "$d/patch.diff" "$prop" 2>&1)
  if echo "$out" | grep -q "^VIOLATION"; then echo "caught  $prop $id  $(echo "$out" | grep -m1 -o 'violation class=[^ ]*')"; else echo "MISSED  $prop $id"; fi
done
