#!/venv/bin/python
"""Regenerates /verif/MANIFEST.json from the table below (run by hand after editing; the result is committed)."""
import json
import os

HERE = os.path.dirname(os.path.dirname(os.path.abspath(__file__)))
PURE = "pure function of its arguments: no schedule, clock, I/O, fault, crash point or shared state for a simulator to control; deciding it means choosing inputs (property-based testing / bounded enumeration / algebra), a different family"
NA = {
    "C01": "integral matching reproduces reference integrals - " + PURE,
    "C02": "recreate + match preserves averages - composition of two pure functions; " + PURE + " (its core is evaluated on history-transformed series as oracle R4 of the C08 check, without being claimed)",
    "C03": "matching moves only interior samples - " + PURE,
    "C04": "n-fold grid structure of recreated series - " + PURE + " (the list-typed result is caught by oracle W1 of the C09 check)",
    "C05": "window strategies never overshoot - " + PURE,
    "C06": "transition geometry and shape functions - " + PURE,
    "C07": "recreation commutes with changes of units - pure metamorphic relation between two calls; " + PURE,
    "C10": "nearest-sample search - pure; its stated quantifier is small-scope exhaustive enumeration of a function (bounded model checking), not seeded schedule/fault search",
    "C11": "truncation and slicing - pure index arithmetic; " + PURE + " (the Weaver-level 'reference cut with the same bounds' clause is exercised as a transition of the C08 check)",
    "C12": "repeat is a periodic extension - " + PURE + " (the Weaver-level clause is a transition of the C08 check)",
    "C13": "interpolation honours data and grid - " + PURE,
    "C14": "trend/shift/scale/normalise are pointwise maps - " + PURE + " (shift/scale/normalise are transitions of the C08 check; trend's write-through is caught by W2 of C09)",
    "C16": "smoothing respects the smoothing condition - pure and deterministic (FITPACK has no randomness or I/O); " + PURE,
    "C17": "array helpers, interval view, block averaging - " + PURE,
}
CHECKS = {
    "C19": dict(
        engine="cache", category="fault_enumeration", design_ref="DESIGN.md section 4",
        technique="deterministic simulation with fault injection: real loader threads (one per simulated process) under a seeded baton scheduler; fake remote with per-attempt fault plans; one global simulated clock (sleep, time.time, file mtimes); kill-at-yield-point crashes and SIGINT (KeyboardInterrupt unwinding through the clean-up code step by step) on real tmpfs; emulated flock; per-process pids incl. equal pids; enumerated crash points, retry table, two-context-switch schedules and dataset pairs, then seeded swarm search; offline-load probe after every mutating step",
        text="Enumerated: every crash point and every interrupt point of 33 base scenarios (alone and with a second loader), the n_retries x failure-pattern x terminal-outcome x {first download, forced refresh} table, every schedule 'A runs i steps, B runs j steps (then is killed, or not), A finishes, B finishes' of two loaders of one dataset (normal / hour-long transfer, refresh, gzip, equal pids), and (thorough) all ordered pairs of the remote datasets. Sampled: 12 000 (quick) to 600 000 (thorough) seeded storms of 1..16 concurrent loaders (one in eight a single process making 3..7 loads one after the other, the caller editing every result in place) with URLError/TimeoutError/HTTPError/ContentTooShortError/seven unclassified error kinds/corrupt/cross-served bodies, partitions, stalls, kills, restarts, litter, temp-name collisions. After every file-system-mutating step, kill and exit the cache entry is probed with a real offline load: absent, or exactly the verified data; after the faults stop a fresh and an offline load must succeed. Outside the enumerated sub-spaces this is sampling: a clean batch is evidence, not proof.",
        note="process death (not power loss) on tmpfs with POSIX rename; threads stand in for processes: the library's process-global state is kept per simulated process (simkit/isolate.py), state inside C extensions would be shared; threads started by the code under test are not simulated (HARNESS-ERROR, not a verdict); CPython refcounting closes the pickle file; genuine named payloads hash to the pinned digests via a hash seam (real figshare files unavailable offline); only flock/lockf are emulated among blocking primitives; NumPy/pickle/tempfile/shutil trusted"),
    "C18": dict(
        engine="registry", category="exploration", design_ref="DESIGN.md section 5",
        technique="fault-free exhaustive configuration sweep inside the simulated network + disk (fake remote, audit-hook file-system log, scratch data home): all documented names x spellings x unpack, all remote datasets into one data home in seeded orders, seeded unknown names, static pairwise distinctness",
        text="All 95 documented names (parsed from the shipped tables at run time) x 5 spellings x both unpack values, plus the default-data-home case, are loaded through the real load_dataset inside the simulated world; every remote load must download exactly its own file once, cache it under the data home only, return its own payload and be served offline afterwards; after each load the caller's copy is modified in place and the name is requested again; the data home is exercised as absolute / trailing-slash / ~-relative / relative / below parents that do not exist yet / with HOME absent from the environment / unset; all remote datasets loaded into one home must each return their own data; URL/digest/slot pairwise distinct, and every loader's remote file name must be the repository file its table row documents; mutated names and every public attribute of the lookup modules must raise ValueError. Exhaustive over names and flags; seeded for mixed spellings, load orders and unknown names.",
        note="payloads are synthetic (one distinct body per URL); the pinned digests themselves cannot be validated offline; bundled CSVs are compared with an independent pure-Python parse"),
    "C08": dict(
        engine="weaver-c08", category="exploration", design_ref="DESIGN.md section 6",
        technique="seeded search over operation histories of one Weaver against an executable reference model (choice-stream kernel, shrinking, exact replay); exhaustive enumeration of all sequences up to length 2 (quick) / 3 (thorough) over a 26-instance alphabet; two-object commutation check",
        text="Tens of thousands (quick) to millions (thorough) of seeded histories of the ten domain operations (and interleaved reshaping operations) on seeded series; after every step get() and get_reference() are compared with a docstring-level model (R1/R2), reshaping operations must leave the reference bitwise unchanged (R3), recreate+match after a domain history must reproduce the transformed averages (R4) and shifts/scales must commute with the pipeline (R5). No scheduler or clock exists in this object; the history quantifier is what is searched.",
        note="reference model trusted; moderate magnitudes; ratio bounds within rounding distance of a sample are not generated (their side depends on evaluation order, not on documented behaviour)"),
    "C09": dict(
        engine="weaver-c09", category="exploration", design_ref="DESIGN.md section 6",
        technique="seeded search over programs of up to 10 operations from the whole public Weaver API with step-wise well-formedness, caller-array and original-series oracles, and a freshly constructed shadow object after restore_original (RNG seam gives both the same draws)",
        text="Seeded programs over 17 operation kinds (all six strategies, four interpolation methods, list/tuple/array arguments, three constructors, read-only observers, in-place edits of get()'s result by the caller). After each step: ndarray/1-D/equal length/finite/strictly increasing (W1), every array the caller passed in is bitwise pristine (W2), get_original() equals the model (W3); after restore_original a new Weaver built on get_original() must stay bitwise identical under every later operation (W4).",
        note="operations are issued only inside their documented preconditions; numpy.random.normal behind a recording seam"),
    "C20": dict(
        engine="weaver-c20", category="exploration", design_ref="DESIGN.md section 6",
        technique="fault injection into seeded Weaver histories: rejected requests from 17 invalid-argument classes injected at seeded positions; ValueError type check, bitwise before/after snapshot of the three series, and a twin object that never saw the request shadowing all later operations",
        text="After seeded valid histories, 1..3 invalid requests (length mismatch, non-(N,2) array, n<2 per strategy, unknown rule/strategy/method/dataset, bad fixed points, empty/inverted/mixed truncation ranges, index bounds, non-sample slice value, wrong grid end points, neither n nor new_x) are issued: each must raise ValueError (V1), leave get()/get_reference()/get_original() bitwise unchanged (V2), and the object must stay identical to its untouched twin under later operations (V3).",
        note="an invalid request is only injected where the same call with valid arguments would be admissible, so that the injected argument is the only thing wrong"),
    "C15": dict(
        engine="noise", category="exploration", design_ref="DESIGN.md section 7",
        technique="RNG seam: numpy.random.normal replaced by a seeded recording stub (exact check of the additive Gaussian term against the SNR definition), plus black-box runs of the real generator under fixed seeds with >= 6-sigma statistical bounds",
        text="Thousands of seeded signals x SNR specifications x entry points with the RNG behind a seam: result - signal must equal sqrt(mean(y^2)/SNR) * z element-wise for the stub's known z (zero mean, right scale per sample, purely additive), x/length/input untouched. With the real generator: bitwise reproducibility under numpy.random.seed, and mean/variance/kurtosis/lag-1/empirical-SNR bounds on 2*10^5-sample series.",
        note="if an implementation draws its Gaussian without numpy.random.normal the seam is reported unreached and only the black-box statistics judge"),
}


def main():
    checks = []
    for pid, c in sorted(CHECKS.items()):
        checks.append({
            "property_id": pid,
            "quick_cmd": f"./vcheck {pid} --tier quick",
            "thorough_cmd": f"./vcheck {pid} --tier thorough",
            "evidence_file": f"/verif/evidence/{pid}.json",
            "replay_cmd_template": "./vcheck replay {path}",
            "engine": c["engine"],
            "level_claimed": {"category": c["category"], "text": c["text"], "design_ref": c["design_ref"]},
            "level_note": c["note"],
            "technique": c["technique"],
        })
    engines = {}
    for pid, c in CHECKS.items():
        engines.setdefault(c["engine"], []).append(pid)
    paths = {"cache": "machines/cache_sim.py", "registry": "machines/registry_sim.py", "weaver-c08": "machines/weaver_sim.py",
             "weaver-c09": "machines/weaver_sim.py", "weaver-c20": "machines/weaver_sim.py", "noise": "machines/noise_sim.py"}
    man = {
        "version": 1,
        "setup_cmd": "./setup.sh",
        "hooks": {
            "guard": "TRAFFIC_WEAVER_VERIF",
            "enable": "no source hooks exist: every seam (network, clock, file system, temp names, hashing, RNG) is applied from outside by attribute replacement and sys.addaudithook; checks import /repo/src (the working tree) directly, nothing is built",
            "baseline_off_cmd": "cd /repo && /venv/bin/python -m pytest -ra -q -p no:cacheprovider --timeout=900 --continue-on-collection-errors",
            "source_commits": [],
            "add_only": True,
        },
        "engines": [{"name": n, "path": paths.get(n, ""), "serves_properties": sorted(p),
                     "kind_free_text": "deterministic simulation / seeded history search on a shared choice-stream kernel (simkit/)"}
                    for n, p in sorted(engines.items())],
        "checks": checks,
        "notes": "See DESIGN.md. Exit codes: 0 held, 1 VIOLATION (replay confirmed in a fresh interpreter), 2 HARNESS-ERROR, 3 HARNESS-TIMEOUT. known_findings.json lists genuine defects: 17 repaired by fix: commits in /repo (status fixed), one recorded (status known: the C08 check prints KNOWN-FINDING lines for its six probe inputs and exits 0).",
        "not_applicable": [{"property_id": k, "reason": v} for k, v in sorted(NA.items())],
    }
    with open(os.path.join(HERE, "MANIFEST.json"), "w") as f:
        json.dump(man, f, indent=1)
    print("wrote MANIFEST.json:", [c["property_id"] for c in checks], "n/a:", len(NA))


if __name__ == "__main__":
    main()
