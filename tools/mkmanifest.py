#!/venv/bin/python
"""Regenerates /verif/MANIFEST.json from the table below (run by hand after editing; the result is committed)."""
import json
import os

HERE = os.path.dirname(os.path.dirname(os.path.abspath(__file__)))
PURE = "pure function of its arguments: no schedule, clock, I/O, fault, crash point or shared state for a simulator to control; deciding it means choosing inputs (property-based testing / bounded enumeration / algebra), a different family"
NA = {
    "C01": "integral matching reproduces reference integrals - " + PURE,
    "C02": "recreate + match preserves averages - composition of two pure functions; " + PURE + " (its core is evaluated on history-transformed series as oracle R4 of the C08 check, without being claimed)",
    "C03": "matching moves only interior samples - " + PURE,
    "C04": "n-fold grid structure of recreated series - " + PURE + " (the list-typed result is caught by oracle W1 of the C09 check)",
    "C05": "window strategies never overshoot - " + PURE,
    "C06": "transition geometry and shape functions - " + PURE,
    "C07": "recreation commutes with changes of units - pure metamorphic relation between two calls; " + PURE,
    "C10": "nearest-sample search - pure; its stated quantifier is small-scope exhaustive enumeration of a function (bounded model checking), not seeded schedule/fault search",
    "C11": "truncation and slicing - pure index arithmetic; " + PURE + " (the Weaver-level 'reference cut with the same bounds' clause is exercised as a transition of the C08 check)",
    "C12": "repeat is a periodic extension - " + PURE + " (the Weaver-level clause is a transition of the C08 check)",
    "C13": "interpolation honours data and grid - " + PURE,
    "C14": "trend/shift/scale/normalise are pointwise maps - " + PURE + " (shift/scale/normalise are transitions of the C08 check; trend's write-through is caught by W2 of C09)",
    "C16": "smoothing respects the smoothing condition - pure and deterministic (FITPACK has no randomness or I/O); " + PURE,
    "C17": "array helpers, interval view, block averaging - " + PURE,
}
CHECKS = {
    "C19": dict(
        engine="cache", category="fault_enumeration", design_ref="DESIGN.md section 4",
        technique="deterministic simulation with fault injection: real loader threads under a seeded baton scheduler, fake remote with per-attempt fault plans, virtual sleep, kill-at-yield-point crashes on real tmpfs; exhaustive crash-point sweep + retry table + dataset pairs, then seeded swarm search; offline-load probe after every mutating step",
        text="Every crash point of 36 base scenarios, the full n_retries x failure-pattern x terminal-outcome table and (thorough) all ordered pairs of remote datasets are enumerated; tens of thousands (quick) to millions (thorough) of seeded storms of 1..16 concurrent loaders with network faults, corrupt bodies, partitions, stalls and crashes are sampled. After every file-system-mutating step the cache entry is probed with a real offline load: it must be absent or return exactly the verified data. Sampling outside the enumerated sub-spaces: a clean batch is evidence, not proof.",
        note="process death (not power loss) on tmpfs with POSIX rename; threads stand in for processes (loader has no process-global state); CPython refcounting closes the pickle file; genuine named payloads hash to the pinned digests via a hash seam (real figshare files unavailable offline); NumPy/pickle/tempfile/shutil trusted"),
}


def main():
    checks = []
    for pid, c in sorted(CHECKS.items()):
        checks.append({
            "property_id": pid,
            "quick_cmd": f"./vcheck {pid} --tier quick",
            "thorough_cmd": f"./vcheck {pid} --tier thorough",
            "evidence_file": f"/verif/evidence/{pid}.json",
            "replay_cmd_template": "./vcheck replay {path}",
            "engine": c["engine"],
            "level_claimed": {"category": c["category"], "text": c["text"], "design_ref": c["design_ref"]},
            "level_note": c["note"],
            "technique": c["technique"],
        })
    engines = {}
    for pid, c in CHECKS.items():
        engines.setdefault(c["engine"], []).append(pid)
    paths = {"cache": "machines/cache_sim.py", "registry": "machines/registry_sim.py", "weaver-c08": "machines/weaver_sim.py",
             "weaver-c09": "machines/weaver_sim.py", "weaver-c20": "machines/weaver_sim.py", "noise": "machines/noise_sim.py"}
    man = {
        "version": 1,
        "setup_cmd": "./setup.sh",
        "hooks": {
            "guard": "TRAFFIC_WEAVER_VERIF",
            "enable": "no source hooks exist: every seam (network, clock, file system, temp names, hashing, RNG) is applied from outside by attribute replacement and sys.addaudithook; checks import /repo/src (the working tree) directly, nothing is built",
            "baseline_off_cmd": "cd /repo && /venv/bin/python -m pytest -ra -q -p no:cacheprovider --timeout=900 --continue-on-collection-errors",
            "source_commits": [],
            "add_only": True,
        },
        "engines": [{"name": n, "path": paths.get(n, ""), "serves_properties": sorted(p),
                     "kind_free_text": "deterministic simulation / seeded history search on a shared choice-stream kernel (simkit/)"}
                    for n, p in sorted(engines.items())],
        "checks": checks,
        "notes": "See DESIGN.md. Exit codes: 0 held, 1 VIOLATION (replay confirmed in a fresh interpreter), 2 HARNESS-ERROR, 3 HARNESS-TIMEOUT. known_findings.json lists genuine defects (all repaired by fix: commits in /repo).",
        "not_applicable": [{"property_id": k, "reason": v} for k, v in sorted(NA.items())],
    }
    with open(os.path.join(HERE, "MANIFEST.json"), "w") as f:
        json.dump(man, f, indent=1)
    print("wrote MANIFEST.json:", [c["property_id"] for c in checks], "n/a:", len(NA))


if __name__ == "__main__":
    main()
