"""Reference model of the Weaver's three series under the ten domain operations, written from the
docstrings (x+s, c*x, affine min->lo / max->hi, tile with offset span + last step, append 2x[-1]-x[-2],
smallest covering run, Python slice).  It does not predict reshaping operations; for those it only
knows what must not change."""
import numpy as np


def _normalize(a, lo, hi):
    a = np.asarray(a, dtype=float)
    mn, mx = a.min(), a.max()
    return (a - mn) / (mx - mn) * (hi - lo) + lo


def _truncate_bounds(x, left, right, left_ratio, right_ratio):
    x = np.asarray(x, dtype=float)
    span = x[-1] - x[0]
    if left_ratio:
        left = left * span + x[0]
    if right_ratio:
        right = right * span + x[0]
    return left, right


def truncate_indices(x, left, right, left_ratio=False, right_ratio=False):
    """(lo, hi) inclusive indices of the smallest contiguous run covering [left, right]; None if left >= right."""
    x = np.asarray(x, dtype=float)
    left, right = _truncate_bounds(x, left, right, left_ratio, right_ratio)
    if not left < right:
        return None
    le = np.nonzero(x <= left)[0]
    lo = int(le[-1]) if len(le) else 0
    ge = np.nonzero(x >= right)[0]
    hi = int(ge[0]) if len(ge) else len(x) - 1
    return lo, hi


def ambiguous_bounds(x, left, right, left_ratio=False, right_ratio=False):
    """True when a bound obtained by floating-point arithmetic (a ratio bound) lies within rounding distance
    of a sample without being exactly that sample: which side it falls on then depends on the evaluation
    order of the implementation, not on the documented behaviour."""
    x = np.asarray(x, dtype=float)
    l, r = _truncate_bounds(x, left, right, left_ratio, right_ratio)
    for b, is_ratio in ((l, left_ratio), (r, right_ratio)):
        d = np.abs(x - b)
        i = int(np.argmin(d))
        tol = 1e-9 * max(1.0, abs(b), abs(x[-1] - x[0]))
        if d[i] <= tol and (is_ratio or x[i] != b):
            return True
    return False


class Series:
    __slots__ = ("x", "y")

    def __init__(self, x, y):
        self.x = np.array(x, dtype=float)
        self.y = np.array(y, dtype=float)

    def copy(self):
        return Series(self.x, self.y)

    def apply(self, op, a, cut=None):
        x, y = self.x, self.y
        if op == "shift_x":
            self.x = x + a["shift"]
        elif op == "shift_y":
            self.y = y + a["shift"]
        elif op == "scale_x":
            self.x = x * a["scale"]
        elif op == "scale_y":
            self.y = y * a["scale"]
        elif op == "normalize_x":
            self.x = _normalize(x, a["lo"], a["hi"])
        elif op == "normalize_y":
            self.y = _normalize(y, a["lo"], a["hi"])
        elif op == "append_one_sample":
            self.x = np.append(x, 2 * x[-1] - x[-2])
            self.y = np.append(y, y[0] if a["periodic"] else y[-1])
        elif op == "repeat":
            r = a["n"]
            period = (x[-1] - x[0]) + (x[-1] - x[-2])
            self.x = np.concatenate([x + i * period for i in range(r)])
            self.y = np.tile(y, r)
        elif op == "truncate_by_value":
            # `cut`, when given, was decided on the observed (already verified) pre-state, so that a bound
            # lying exactly on a sample is not re-decided on the model's own, ulp-different, arithmetic
            idx = cut if cut is not None else truncate_indices(x, a["left"], a["right"], a["left_ratio"], a["right_ratio"])
            lo, hi = idx
            self.x, self.y = x[lo:hi + 1], y[lo:hi + 1]
        elif op == "truncate_by_index":
            self.x, self.y = x[a["start"]:a["stop"]], y[a["start"]:a["stop"]]
        else:
            raise KeyError(op)


DOMAIN_OPS = ("append_one_sample", "shift_x", "shift_y", "scale_x", "scale_y", "normalize_x", "normalize_y", "repeat",
              "truncate_by_value", "truncate_by_index")
RESHAPING_OPS = ("recreate_from_average", "integral_match", "interpolate", "smooth", "trend", "noise")


class WeaverModel:
    def __init__(self, x, y):
        if x is None:
            x = np.arange(len(y))
        self.work = Series(x, y)
        self.ref = Series(x, y)
        self.orig = Series(x, y)
        self.reshaped = False

    def domain(self, op, a, cut_work=None, cut_ref=None):
        if not self.reshaped:
            self.work.apply(op, a, cut_work)
        self.ref.apply(op, a, cut_ref)
        if op == "normalize_x":
            self.orig.x = _normalize(self.orig.x, a["lo"], a["hi"])
        elif op == "normalize_y":
            self.orig.y = _normalize(self.orig.y, a["lo"], a["hi"])

    def reshape(self):
        self.reshaped = True
        self.work = None

    def restore(self):
        """restore_original: behaves like a newly constructed object on the original data."""
        self.work = self.orig.copy()
        self.ref = self.orig.copy()
        self.reshaped = False
