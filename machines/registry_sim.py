"""C18: every documented dataset is reachable by name, well-formed, distinct, and cached under the
data home.  A fault-free, exhaustive configuration sweep inside the simulated world of cache_sim
(fake remote, audit hook, scratch data home): what makes it a job for the simulator is that its
observation points are the simulator's seams (the URL handed to urlretrieve, files created on disk).
"""
import copy
import importlib
import os
import random
import re

import numpy as np

from simkit import runner as R
from simkit import sim as K
from simkit import stream as S
from . import cache_sim as C

PROPERTY = "C18"
LEVEL = "exploration"

_DOC = None


def doc_names():
    """(family file, documented name) for every row of the shipped description tables, read from the working tree."""
    global _DOC
    if _DOC is not None:
        return _DOC
    from importlib import resources
    out = []
    pkg = resources.files("traffic_weaver.datasets.data_description")
    for entry in sorted(pkg.iterdir(), key=lambda e: e.name):
        if not entry.name.endswith(".md"):
            continue
        for line in entry.read_text(encoding="utf-8").splitlines():
            m = re.match(r"^\|\s*(\d+)\s*\|\s*([^|\s]+)\s*\|", line)
            if m:
                out.append((entry.name[:-3], m.group(2)))
    _DOC = out
    return out


def doc_repository_files():
    """documented name -> the repository file the same table row names for it (third column): the only statement in
    the package about WHICH remote file a name stands for."""
    from importlib import resources
    out = {}
    pkg = resources.files("traffic_weaver.datasets.data_description")
    for entry in sorted(pkg.iterdir(), key=lambda e: e.name):
        if not entry.name.endswith(".md"):
            continue
        for line in entry.read_text(encoding="utf-8").splitlines():
            m = re.match(r"^\|\s*(\d+)\s*\|\s*([^|\s]+)\s*\|\s*([^|\s]+)\s*\|", line)
            if m:
                out[m.group(2)] = m.group(3)
    return out


def _file_key(s):
    s = str(s).lower().replace("-", "_")
    for ext in (".gz", ".csv"):
        if s.endswith(ext):
            s = s[:-len(ext)]
    return s.lstrip("./")


def is_bundled(name):
    return name.startswith("sandvine")


def ds_for(name):
    return C.named_world().ds.get(name.replace("-", "_"))


def spellings(name, variant, st):
    seps = [i for i, ch in enumerate(name) if ch in "-_"]
    if variant == "doc":
        return name
    if variant == "underscore":
        return name.replace("-", "_")
    if variant == "dash":
        return name.replace("_", "-")
    chars = list(name)
    for i in seps:
        chars[i] = "-" if st.coin(1, 2, "sep") else "_"
    return "".join(chars)


def bundled_expected(name):
    """Independent parse of the bundled CSV (python float, not numpy.loadtxt)."""
    from importlib import resources
    fn = name.replace("-", "_")[len("sandvine_"):] + ".csv"
    text = (resources.files("traffic_weaver.datasets.data") / "sandvine" / fn).read_text()
    rows = [tuple(float(v) for v in line.split(",")) for line in text.splitlines() if line.strip()]
    return np.array(rows, dtype=np.float64)


def tree(root):
    files = []
    for d, _dirs, fs in os.walk(root):
        for f in fs:
            files.append(os.path.relpath(os.path.join(d, f), root))
    return sorted(files)


def _scn(targets, actors, home="env", discipline="serial"):
    return {"gen": "scn", "world": "named", "gzip": False, "targets": targets, "setup": "cold", "home": home,
            "discipline": discipline, "enabled": [], "partition": None, "actors": actors}


def _raw(name, unpack, **kw):
    spec = C._actor_spec(None, via="load_dataset", unpack=unpack)
    spec["raw_name"] = name
    spec.update(kw)
    return spec


def well_formed(run, value, unpack, expected, key, what):
    if unpack:
        if not (isinstance(value, tuple) and len(value) == 2):
            run.fail("unpack-not-two-columns", key, f"{what}: unpacking requested, got {type(value).__name__}")
        arr = np.column_stack(value)
        cols = value
    else:
        arr = value
        cols = None
    if not isinstance(arr, np.ndarray) or arr.ndim != 2 or arr.shape[1] != 2 or arr.dtype != np.float64:
        run.fail("not-a-float-Nx2-array", key, f"{what}: expected float64 (N, 2), got {type(arr).__name__} "
                 f"{getattr(arr, 'shape', None)} {getattr(arr, 'dtype', None)}")
    if cols is not None and not all(isinstance(c, np.ndarray) and c.ndim == 1 for c in cols):
        run.fail("unpack-not-two-columns", key, f"{what}: unpacked columns are not 1-D arrays")
    if not np.all(np.isfinite(arr)):
        run.fail("non-finite-values", key, f"{what}: contains non-finite values")
    if not np.all(np.diff(arr[:, 0]) > 0):
        run.fail("first-column-not-increasing", key, f"{what}: first column is not strictly increasing")
    if expected is not None and not (arr.shape == expected.shape and np.array_equal(arr, expected)):
        run.fail("wrong-data", key, f"{what}: returned data differs from the dataset's own file")


def run_name_case(params, st, keep_log=False):
    name, variant, unpack = params["name"], params["variant"], params["unpack"]
    spelled = spellings(name, variant, st)
    key = f"name={name}"
    bundled = is_bundled(name)
    ds = None if bundled else ds_for(name)
    home = params.get("home", "env")
    targets = [ds.name] if ds is not None else []
    scn = _scn(targets, [_raw(spelled, unpack)], home=home)
    scn["case"] = {"documented": name, "spelled": spelled, "unpack": unpack, "bundled": bundled}

    def extra(run, actors, phase):
        a = actors[0]
        what = f"load_dataset({spelled!r}, unpack_dataset_columns={unpack})"
        if phase == "pre":
            if isinstance(a.exc, ValueError) and "No such dataset" in str(a.exc):
                run.fail("documented-name-unreachable", key, f"{what} raised ValueError: {a.exc}")
            if a.exc is not None:
                run.fail("documented-name-load-failed", key, f"{what} raised {type(a.exc).__name__}: {a.exc}")
            # the result belongs to the caller: keep a copy for the checks below, then do what callers do -
            # modify it in place - and ask again; every request must still be answered with the dataset itself
            scn["first_result"] = copy.deepcopy(a.result)
            parts = a.result if isinstance(a.result, tuple) else (a.result,)
            for part in parts:
                if isinstance(part, np.ndarray) and part.size and part.flags.writeable:
                    part[...] = part[::-1] * 0.5 + 1.0
            expected = bundled_expected(name) if bundled else (ds.expected if ds is not None else None)
            # ... and again after every later answer has been modified too: a library that memoises what it read and
            # hands out views of the memo on one of its paths is only exposed by the load AFTER that one
            for again_unpack in (True, False, True, False):
                b = run.spawn_loader(_raw(spelled, again_unpack), role="again")
                run.sim.run(on_step=run.on_step, step_cap=run.sim.step + 400)
                w2 = f"load_dataset({spelled!r}, unpack_dataset_columns={again_unpack}) after the caller modified, in place, " \
                     f"the arrays returned by an earlier load"
                if b.exc is not None:
                    run.fail("reload-after-caller-edit-failed", key, f"{w2} raised {type(b.exc).__name__}: {b.exc}")
                well_formed(run, b.result, again_unpack, expected, key, w2)
                if bundled and b.attrs.get("net_calls", 0):
                    run.fail("bundled-used-network", key, f"{w2}: network call")
                for part in (b.result if isinstance(b.result, tuple) else (b.result,)):
                    if isinstance(part, np.ndarray) and part.size and part.flags.writeable:
                        part[...] = part[::-1] * 0.25 - 3.0
            a.result = scn.pop("first_result")
            return
        if isinstance(a.exc, ValueError) and "No such dataset" in str(a.exc):
            run.fail("documented-name-unreachable", key, f"{what} raised ValueError: {a.exc}")
        if a.exc is not None:
            run.fail("documented-name-load-failed", key, f"{what} raised {type(a.exc).__name__}: {a.exc}")
        files = tree(run.root)
        inside = os.path.relpath(run.home, run.root) + os.sep
        calls = a.attrs.get("net_calls", 0)
        if bundled:
            well_formed(run, a.result, unpack, bundled_expected(name), key, what)
            if calls:
                run.fail("bundled-used-network", key, f"{what}: a bundled dataset made {calls} network call(s)")
            created = [f for f in files]
            if created:
                run.fail("bundled-created-files", key, f"{what}: a bundled dataset created files: {created[:3]}")
            return
        if ds is None:
            run.fail("documented-name-has-no-loader", key, f"{what} returned, but no fetch_* loader is discoverable for it")
        well_formed(run, a.result, unpack, ds.expected, key, what)
        if calls != 1:
            run.fail("not-exactly-one-download", key, f"{what} on a cold cache made {calls} downloads, expected 1")
        urls = [k for k in a.attrs.get("urls", [])]
        if urls and C.canonical_remote(urls[0]) != C.canonical_remote(ds.url):
            run.fail("wrong-remote-file", key, f"{what} downloaded {urls[0]}, its own file is {ds.url}")
        outside = [f for f in files if not f.startswith(inside)]
        if outside:
            run.fail("cache-outside-data-home", key, f"{what}: files outside the data home "
                     f"({'$HOME/.traffic-weaver-data' if home == 'default' else '$TRAFFIC_WEAVER_DATA=' + run.env_value}): "
                     f"{outside[:3]}")
        if not [f for f in files if f.startswith(inside)]:
            run.fail("nothing-cached", key, f"{what}: no cache entry was created under the data home")
        for b in run.sim.actors:
            if b.role in ("fresh", "offline") and b.attrs.get("net_calls", 0):
                run.fail("second-load-used-network", key, f"a second load of {name} made a network call")

    res = C.execute(scn, st, keep_log, extra=extra, prop="C18")
    res.nontrivial = True
    return res


def lookup_attribute_names():
    """Public attributes of the modules load_dataset could look names up in, turned into candidate dataset names
    (with and without their load_/fetch_ prefix, '_' and '-' spellings) - minus the documented names."""
    known = {n.replace("-", "_") for _, n in doc_names()}
    out = []
    for modname in ("traffic_weaver.datasets._datasets", "traffic_weaver.datasets", "traffic_weaver.datasets._base"):
        try:
            m = importlib.import_module(modname)
        except Exception:
            continue
        for attr in sorted(dir(m)):
            if attr.startswith("_"):
                continue
            for cand in (attr, attr.replace("_", "-"), attr.replace("_", "-", 1)):
                if cand.replace("-", "_") not in known and cand not in out:
                    out.append(cand)
    return out


def run_unknown(params, st, keep_log=False):
    names = [n for _, n in doc_names()]
    if params.get("attr") is not None:
        return _run_unknown_name(params["attr"], st.pick((False, True, None), "unpack"), st, keep_log)
    base = st.pick(names, "base")
    how = st.draw(0, 7, "mutation")
    if how == 0:
        bad = base[:-1]
    elif how == 1:
        bad = base + "x"
    elif how == 2:
        bad = "x" + base
    elif how == 3:
        bad = ""
    elif how == 4:
        bad = base + "_v2"
    elif how == 5:
        bad = base.split("_")[0].split("-")[0] + "_dataset_description"
    elif how == 6:
        i = st.draw(0, len(base) - 1, "pos")
        bad = base[:i] + base[i + 1:]
    else:
        bad = base.replace("-", ".").replace("_", ".")
    known = {n.replace("-", "_") for n in names}
    if bad.replace("-", "_") in known:
        bad = bad + "?"
    unpack = st.pick((False, True, None), "unpack")
    return _run_unknown_name(bad, unpack, st, keep_log)


def _run_unknown_name(bad, unpack, st, keep_log):
    scn = _scn([], [_raw(bad, unpack)])
    scn["case"] = {"unknown": bad}

    def extra(run, actors, phase):
        a = actors[0]
        if phase == "pre":
            return
        if a.exc is None:
            run.fail("unknown-name-accepted", "unknown-name", f"load_dataset({bad!r}) returned a value instead of raising ValueError")
        if not isinstance(a.exc, ValueError):
            run.fail("unknown-name-not-ValueError", "unknown-name",
                     f"load_dataset({bad!r}) raised {type(a.exc).__name__}: {a.exc}, expected ValueError")
        if a.attrs.get("net_calls", 0):
            run.fail("unknown-name-used-network", "unknown-name", f"load_dataset({bad!r}) made a network call")

    res = C.execute(scn, st, keep_log, extra=extra, prop="C18")
    res.nontrivial = True
    return res


def run_all_in_one(params, st, keep_log=False):
    """All remote datasets into one data home, in a seeded order: each must return its own payload, twice."""
    names = [n for _, n in doc_names() if not is_bundled(n) and ds_for(n) is not None]
    order = list(names)
    rnd = random.Random(st.draw(0, 10 ** 6, "order-seed"))
    rnd.shuffle(order)
    if params.get("limit"):
        order = order[:params["limit"]]
    actors = [_raw(n, False) for n in order] + [_raw(n, True) for n in order]
    scn = _scn([], actors, home=params.get("home", "env"))
    scn["one_process"] = params.get("one_process", True)
    scn["case"] = {"all-in-one": len(order), "one_process": scn["one_process"]}

    def extra(run, acts, phase):
        if phase == "pre":
            return
        n = len(order)
        for i, a in enumerate(acts):
            name = order[i % n]
            ds = ds_for(name)
            key = f"name={name}"
            what = f"load_dataset({name!r}) as load #{i + 1} into a shared data home"
            if a.exc is not None:
                run.fail("documented-name-load-failed", key, f"{what} raised {type(a.exc).__name__}: {a.exc}")
            try:
                well_formed(run, a.result, i >= n, ds.expected, key, what)
            except C.Violation as v:
                if v.cls.endswith("wrong-data"):
                    arr = np.column_stack(a.result) if i >= n else a.result
                    who = run.whose(arr)
                    run.fail("shared-cache-slot", key, f"{what} returned the data of {who or 'another source'}: "
                             f"two datasets share a remote file or cache slot")
                raise
            calls = a.attrs.get("net_calls", 0)
            if i < n and calls != 1:
                run.fail("not-exactly-one-download", key, f"{what} made {calls} downloads, expected 1 "
                         f"(0 means it was served from another dataset's cache entry)")
            if i >= n and calls != 0:
                run.fail("second-load-used-network", key, f"{what}: second load made {calls} network call(s)")

    return C.execute(scn, st, keep_log, extra=extra, prop="C18")


def run_home_switch(params, st, keep_log=False):
    """One process: load a remote dataset with TRAFFIC_WEAVER_DATA=A, change the variable to B (or unset it), load
    again: the second cache entry must appear under B (or under $HOME/.traffic-weaver-data), nothing new under A."""
    names = [n for _, n in doc_names() if not is_bundled(n) and ds_for(n) is not None]
    first = st.pick(names, "first")
    second = st.pick(names, "second") if st.coin(2, 3, "other-dataset") else first
    start_default = st.coin(1, 3, "start-with-default-home")        # first load with the variable unset
    to_unset = (not start_default) and st.coin(1, 3, "unset-instead")
    scn = _scn([], [_raw(first, False)], home="default" if start_default else "env")
    scn["one_process"] = True
    scn["case"] = {"home-switch": [first, second], "from": "unset" if start_default else "A", "then": "unset" if to_unset else "B"}

    def extra(run, actors, phase):
        if phase != "pre":
            return
        a = actors[0]
        key = f"name={second}"
        if a.exc is not None:
            run.fail("documented-name-load-failed", f"name={first}", f"load_dataset({first!r}) raised {type(a.exc).__name__}: {a.exc}")
        before = set(tree(run.root))
        home_b = os.path.join(run.root, "homeB")
        default_home = os.path.join(run.user_home, ".traffic-weaver-data")
        if to_unset:
            os.environ.pop("TRAFFIC_WEAVER_DATA", None)
            want = default_home
        else:
            os.environ["TRAFFIC_WEAVER_DATA"] = home_b
            want = home_b
        b = run.spawn_loader(_raw(second, False), role="again")
        b.attrs["proc"] = a.attrs.get("proc", ("process", 0))
        run.sim.run(on_step=run.on_step, step_cap=run.sim.step + 400)
        what = f"load_dataset({second!r}) after TRAFFIC_WEAVER_DATA was " + \
            ("unset" if to_unset else ("set" if start_default else "changed to another directory")) + \
            f" in the same process (first load: {first!r})"
        if b.exc is not None:
            run.fail("documented-name-load-failed", key, f"{what} raised {type(b.exc).__name__}: {b.exc}")
        well_formed(run, b.result, False, ds_for(second).expected, key, what)
        new = sorted(set(tree(run.root)) - before)
        inside = os.path.relpath(want, run.root) + os.sep
        stray = [f for f in new if not f.startswith(inside)]
        if stray:
            run.fail("cache-outside-data-home", key, f"{what}: new files outside the data home now in force: {stray[:3]}")
        if not new:
            run.fail("nothing-cached", key, f"{what}: nothing was cached under the data home now in force "
                     f"(served from the old one: {b.attrs.get('net_calls', 0)} downloads)")

    res = C.execute(scn, st, keep_log, extra=extra, prop="C18")
    res.nontrivial = True
    return res


def run_static(params, st, keep_log=False):
    """Pairwise distinctness of remote file, checksum and cache slot over all documented remote datasets."""
    res = R.Result()
    res.choices = list(st.rec)
    names = [n for _, n in doc_names() if not is_bundled(n)]
    seen = {"url": {}, "checksum": {}, "slot": {}, "remote_filename": {}}
    n_pairs = 0
    for n in names:
        ds = ds_for(n)
        if ds is None:
            continue
        for field, val in (("url", C.canonical_remote(ds.url)), ("checksum", ds.pinned), ("slot", (ds.folder, ds.slot)),
                           ("remote_filename", ds.remote_filename)):
            if val in seen[field] and res.violation is None:
                other = seen[field][val]
                res.violation = {"cls": f"C18/shared-{field}", "key": "names=" + "+".join(sorted((other, n))),
                                 "msg": f"datasets {other} and {n} share the same {field}: {val}"}
            seen[field].setdefault(val, n)
        # its OWN file: the table row that documents the name also names the repository file; the loader must ask for
        # that one (compared modulo '-'/'_' and extension, and as a suffix: the shipped sources carry typos such as
        # 'aams-ix-isp_monthly...' and '..._daily-2024...' that do not change which file is meant)
        doc_file = doc_repository_files().get(n)
        if doc_file and res.violation is None:
            a, b = _file_key(doc_file), _file_key(ds.remote_filename)
            if not (a == b or a.endswith(b) or b.endswith(a)):
                res.violation = {"cls": "C18/not-its-own-remote-file", "key": f"name={n}",
                                 "msg": f"{n} is documented as repository file {doc_file!r}, but its loader downloads "
                                        f"{ds.remote_filename!r} ({ds.url})"}
        n_pairs += 1
    res.stats["static:datasets-compared"] = n_pairs
    import hashlib
    res.digest = int.from_bytes(hashlib.sha256(repr(("static", n_pairs, sorted(map(repr, seen["slot"])))).encode()).digest()[:8], "big")
    res.nontrivial = True
    res.sample = {"static": {"datasets": n_pairs, "distinct_urls": len(seen["url"]), "distinct_checksums": len(seen["checksum"]),
                             "distinct_slots": len(seen["slot"])}}
    res.log = []
    return res


def run_single(params, choices, keep_log=False):
    return _run(params, S.Stream(replay=choices), keep_log)


def _run(params, st, keep_log=False):
    gen = params["gen"]
    if gen == "name":
        return run_name_case(params, st, keep_log)
    if gen == "unknown":
        return run_unknown(params, st, keep_log)
    if gen == "all":
        return run_all_in_one(params, st, keep_log)
    if gen == "static":
        return run_static(params, st, keep_log)
    if gen == "switch":
        return run_home_switch(params, st, keep_log)
    raise R.HarnessError(f"unknown generator {gen}")


def run_unit(params, seed):
    out = R.UnitOutcome()
    res = _run(params, S.Stream(seed=seed))
    out.add(params, res)
    return out


def plan(tier, verif_seed):
    units = [{"gen": "static"}]
    for _fam, name in doc_names():
        for variant in ("doc", "underscore", "dash", "mixed", "mixed"):
            for unpack in (False, True):
                units.append({"gen": "name", "name": name, "variant": variant, "unpack": unpack, "home": "env"})
        for home in ("default", "env-tilde", "env-slash", "env-rel", "env-nested", "env-nohome"):
            units.append({"gen": "name", "name": name, "variant": "doc", "unpack": False, "home": home})
    units.extend({"gen": "all", "home": "env", "one_process": i % 2 == 0} for i in range(2 if tier == "quick" else 24))
    units.append({"gen": "all", "home": "default"})
    units.extend({"gen": "switch"} for _ in range(60 if tier == "quick" else 600))
    units.extend({"gen": "unknown"} for _ in range(300 if tier == "quick" else 5000))
    units.extend({"gen": "unknown", "attr": a} for a in lookup_attribute_names())
    return units


def describe():
    names = doc_names()
    nb = sum(1 for _, n in names if is_bundled(n))
    return {
        "rule": f"Exhaustive over the {len(names)} names parsed from the shipped description tables ({nb} bundled, "
                f"{len(names) - nb} remote) x 5 spellings (documented, all '_', all '-', two seeded mixed) x unpack in "
                "{False, True}, plus the default-data-home case per name, seeded orders of loading all remote datasets "
                "into one data home, seeded unknown names, and one static pairwise-distinctness pass. Each case runs the "
                "real load_dataset inside the simulated network + disk and is followed by a second (cached) and an offline "
                "load. Non-trivial = touches the simulated network or disk, or is a seeded spelling/unknown-name case; "
                "distinct = distinct event-log digest.",
        "assumptions": ["genuine payloads are synthetic (the figshare files are not available offline); each URL serves a "
                        "different body, so any sharing of URL, digest or cache slot shows up as wrong data",
                        "bundled CSVs are compared with an independent pure-Python parse of the same resource files"],
        "components": {"real": ["load_dataset name lookup", "all load_sandvine_* and fetch_* loaders",
                                "load_csv_dataset_from_resources", "load_csv_dataset_from_remote and below", "get_data_home"],
                       "stub": ["network (fake remote, fault-free)", "hash value of genuine payloads (pinned digests)",
                                "temp-name entropy"]},
        "extra": {"exhaustive": True, "documented_names": len(names)},
    }
