"""C19 (and the world shared with C18): the remote-dataset cache under faults, crashes and
concurrent loaders.  Real code: load_dataset, every fetch_*, load_csv_dataset_from_remote,
_fetch_remote, _sha256, get_data_home, tempfile, shutil, pickle, gzip, numpy.loadtxt, the
kernel's tmpfs.  Stubbed: the network (fake remote), time.sleep (virtual clock), temp-name
entropy, and the hash function's *value* for genuine payloads of named loaders (the simulated
world's genuine files hash to the digests pinned in the source).
"""
import collections
import gzip as _gzip
import hashlib
import importlib
import inspect
import io
import os
import pkgutil
import random
import shutil
import sys
import tempfile
import urllib.error
import warnings

import numpy as np

from simkit import isolate
from simkit import runner as R
from simkit import sim as K
from simkit import stream as S

PROPERTY = "C19"
LEVEL = "fault_enumeration"

TRANSIENT = ("urlerror", "timeout")
LENIENT = ("httperror", "too_short", "fatal")
CORRUPT = ("corrupt_flip", "corrupt_trunc", "corrupt_empty", "cross_served")
FAULT_KINDS = TRANSIENT + LENIENT + CORRUPT
CRASH_SITES = ("net.before", "open-w:tmp.archive", "write:tmp.archive", "close:tmp.archive", "open-r:tmp.archive",
               "open-w:tmp.pickle", "write:tmp.pickle", "write.mid:tmp.pickle", "close", "rename", "open-r:slot",
               "remove", "rmdir", "scandir", "stat:slot", "mkdir", "sleep", "rmtree", "open-fd")
WRITE_CLASS = ("rename", "open-w", "write", "fdwrite", "close", "flush", "remove", "rmdir", "mkdir", "truncate", "link", "symlink",
               "copyfile", "move", "copytree", "CRASH")
STEP_CAP = 4000


def _fatal_errors():
    # what a real transfer meets besides URLError/TimeoutError: the statement says nothing about retrying these, so
    # the loader may do either - but whatever it does, the cache must be sound afterwards
    import http.client
    import socket
    import ssl
    return (lambda: ConnectionResetError("simulated: connection reset by peer"),
            lambda: http.client.IncompleteRead(b"simulated", 1000),
            lambda: http.client.RemoteDisconnected("simulated: remote end closed connection without response"),
            lambda: ssl.SSLError("simulated: decryption failed or bad record mac"),
            lambda: socket.gaierror(-3, "simulated: temporary failure in name resolution"),
            lambda: MemoryError("simulated"),
            lambda: KeyboardInterrupt())


FATAL_ERRORS = _fatal_errors()
CALM_STEP_BUDGET = 200


# ----------------------------------------------------------------------------- scratch space
_PROC_DIR = None
_RUN_NO = 0


def new_run_root():
    """A fresh scratch directory for one run, under the batch's scratch root (runner.scratch_root(), removed by the
    main process when the batch ends - pool workers exit through os._exit and cannot clean up themselves)."""
    global _PROC_DIR, _RUN_NO
    if _PROC_DIR is None or not _PROC_DIR.endswith(f"w{os.getpid()}"):
        _PROC_DIR = os.path.join(R.scratch_root(), f"w{os.getpid()}")
        shutil.rmtree(_PROC_DIR, ignore_errors=True)
        os.makedirs(_PROC_DIR, exist_ok=True)
    _RUN_NO += 1
    root = os.path.join(_PROC_DIR, "r")
    shutil.rmtree(root, ignore_errors=True)
    os.makedirs(root)
    return root


# ----------------------------------------------------------------------------- the simulated world
class DS:
    """One remote dataset of the simulated world."""
    __slots__ = ("name", "func_name", "func_module", "doc_name", "url", "pinned", "remote_filename", "slot", "folder",
                 "gzip", "validate", "rows", "body", "expected", "sim_digest", "synthetic", "extra_kwargs", "style",
                 "members")


def _rows_from_rng(rnd, n, kind):
    x = []
    cur = rnd.randint(-50, 50) * 1.0
    for _ in range(n):
        if kind == 0:
            step = 1.0
        elif kind == 1:
            step = rnd.choice((0.25, 0.5, 1.0, 1.5, 2.0, 3.0))
        else:
            step = rnd.uniform(0.01, 10.0)
        cur = cur + step
        x.append(cur)
    if kind == 0:
        y = [float(rnd.randint(-100, 100)) for _ in range(n)]
    elif kind == 1:
        y = [rnd.randint(-200, 200) / 2.0 for _ in range(n)]
    else:
        y = [rnd.uniform(-1e3, 1e3) for _ in range(n)]
    return [(a, b) for a, b in zip(x, y)]


def _fmt(v, style):
    if style == 1 and float(v).is_integer() and abs(v) < 1e15:
        return str(int(v))                 # "3" instead of "3.0"
    if style == 2:
        return f"{v:.17e}"                 # scientific notation, round-trips exactly
    return repr(v)


def _encode_csv(rows, style=0):
    """style: 0 repr + trailing newline, 1 integers without '.0', 2 scientific, 3 no trailing newline, 4 CRLF."""
    sep = "\r\n" if style == 4 else "\n"
    text = sep.join(f"{_fmt(a, style)},{_fmt(b, style)}" for a, b in rows)
    return (text + ("" if style == 3 else sep)).encode()


def _compress(raw, members=1):
    """gzip with `members` concatenated members (valid gzip: cat a.gz b.gz, pigz -i, bgzip produce such files)."""
    if members <= 1:
        return _gzip.compress(raw, mtime=0)
    lines = raw.splitlines(keepends=True)
    cut = [len(lines) * i // members for i in range(members + 1)]
    return b"".join(_gzip.compress(b"".join(lines[cut[i]:cut[i + 1]]), mtime=0) for i in range(members))


def _finish_ds(ds):
    style = getattr(ds, "style", 0) or 0
    raw = _encode_csv(ds.rows, style)
    ds.body = _compress(raw, getattr(ds, "members", 1) or 1) if ds.gzip else raw
    ds.expected = np.array(ds.rows, dtype=np.float64).reshape(len(ds.rows), 2)
    ds.sim_digest = K.REAL.get("sha256", hashlib.sha256)(ds.body).hexdigest()
    return ds


class _Found(BaseException):
    def __init__(self, info):
        self.info = info


_DISCOVERY = None


def dataset_modules():
    import traffic_weaver.datasets as pkg
    mods = []
    for m in pkgutil.iter_modules(pkg.__path__):
        if m.ispkg:
            continue
        try:
            mods.append(importlib.import_module(f"{pkg.__name__}.{m.name}"))
        except Exception:       # a broken loader module is C18's business, not discovery's
            continue
    return mods


def discover():
    """Call every fetch_* function of every traffic_weaver.datasets submodule once with a recording
    stub in place of load_csv_dataset_from_remote: name -> (url, pinned digest, cache slot, ...)."""
    global _DISCOVERY
    if _DISCOVERY is not None:
        return _DISCOVERY
    base = importlib.import_module("traffic_weaver.datasets._base")
    real = base.load_csv_dataset_from_remote
    sig = inspect.signature(real)
    # every loader is asked in import-time library state: what a loader requests must be learnt from that loader
    # alone, not from a history of 75 other loaders called before it in this very process (a memo shared between
    # loaders would otherwise poison the world model - and the baseline - with the defect it should expose)
    isolate.reset_library_state()

    def recorder(*args, **kwargs):
        raise _Found(sig.bind(*args, **kwargs).arguments)

    mods = dataset_modules()
    saved = []
    for m in mods:
        if hasattr(m, "load_csv_dataset_from_remote"):
            saved.append((m, m.load_csv_dataset_from_remote))
            m.load_csv_dataset_from_remote = recorder
    found = collections.OrderedDict()
    try:
        for m in sorted(mods, key=lambda m: m.__name__):
            for attr in sorted(vars(m)):
                fn = getattr(m, attr)
                if not attr.startswith("fetch_") or not callable(fn) or getattr(fn, "__module__", None) != m.__name__:
                    continue
                try:
                    isolate.reset_library_state()
                    fn()
                except _Found as f:
                    info = f.info
                except Exception:
                    continue
                else:
                    continue
                remote = info.get("remote")
                ds = DS()
                ds.name = attr[len("fetch_"):]
                ds.func_name, ds.func_module = attr, m.__name__
                ds.doc_name = None
                ds.url, ds.pinned, ds.remote_filename = remote.url, remote.checksum, remote.filename
                ds.slot, ds.folder = info.get("dataset_filename"), info.get("dataset_folder")
                ds.gzip = bool(info.get("gzip", False))
                ds.validate = info.get("validate_checksum", True)
                ds.synthetic = False
                ds.extra_kwargs = {k: v for k, v in info.items() if k not in (
                    "remote", "dataset_filename", "dataset_folder", "gzip", "validate_checksum")}
                found[ds.name] = ds
    finally:
        for m, f in saved:
            m.load_csv_dataset_from_remote = f
        isolate.reset_library_state()
    _DISCOVERY = found
    return found


def canonical_remote(url):
    """Identity of the remote FILE behind a URL.  All shipped datasets live on figshare, which serves file <id> under
    several host/path forms (figshare.com/ndownloader/files/<id>, ndownloader.figshare.com/files/<id>); two URL
    strings with the same id are one remote file.  Anything else is identified by host + path."""
    import re
    from urllib.parse import urlsplit
    u = urlsplit(str(url))
    host = (u.hostname or "").lower()
    if host.startswith("www."):
        host = host[4:]
    m = re.search(r"/files/(\d+)/?$", u.path)
    if m and (host.endswith("figshare.com") or host.endswith("sim.invalid")):
        return f"{host.split('.')[-2]}-file:{m.group(1)}"
    return f"{host}{u.path.rstrip('/')}" + (f"?{u.query}" if u.query else "")


class World:
    def __init__(self):
        self.ds = collections.OrderedDict()
        self.by_url = {}
        self.sim2pinned = {}

    def add(self, ds):
        self.ds[ds.name] = ds
        self.by_url.setdefault(canonical_remote(ds.url), ds)
        if not ds.synthetic:
            self.sim2pinned.setdefault(ds.sim_digest, ds.pinned)

    def translate_digest(self, d):
        return self.sim2pinned.get(d, d)


_NAMED_WORLD = None


def named_world():
    """All discovered loaders with a deterministic, distinct payload per URL (memoised per process)."""
    global _NAMED_WORLD
    if _NAMED_WORLD is not None:
        return _NAMED_WORLD
    w = World()
    by_url_rows = {}
    for name, ds in discover().items():
        cu = canonical_remote(ds.url)
        if cu not in by_url_rows:
            rnd = random.Random(int.from_bytes(K.REAL.get("sha256", hashlib.sha256)(cu.encode()).digest()[:8], "big"))
            by_url_rows[cu] = _rows_from_rng(rnd, rnd.randint(4, 24), rnd.randint(0, 2))
        ds.rows = by_url_rows[cu]
        _finish_ds(ds)
        w.add(ds)
    _NAMED_WORLD = w
    return w


def synthetic_ds(name, idx, rows, gz, style=0, members=1):
    ds = DS()
    ds.style, ds.members = style, members
    ds.name = name
    ds.func_name = ds.func_module = ds.doc_name = None
    ds.url = f"https://sim.invalid/ndownloader/files/{1000 + idx}"
    ds.remote_filename = f"{name}_2024-01-01.csv" + (".gz" if gz else "")
    ds.slot, ds.folder = name, "sim-folder"
    ds.gzip, ds.validate, ds.synthetic = gz, True, True
    ds.rows = rows
    ds.extra_kwargs = {}
    _finish_ds(ds)
    ds.pinned = ds.sim_digest
    return ds


# ----------------------------------------------------------------------------- scenario generation
DEFAULT_RETRIES = 3
DEFAULT_DELAY = 1.0


def gen_plan(st, n_retries, fault_num, enabled):
    """Per-attempt network outcomes; ends with the first terminal outcome."""
    plan = []
    for _ in range(n_retries + 3):
        if enabled and st.coin(fault_num, 4, "fault?"):
            kind = st.pick(enabled, "kind")
        else:
            kind = "ok"
        att = {"kind": kind, "latency": st.pick((0.01, 0.2, 2.0, 30.0, 120.0), "latency")}
        if kind != "ok":
            att["partial"] = st.draw(0, 7, "partial")
        if kind == "fatal":
            att["exc"] = st.draw(0, len(FATAL_ERRORS) - 1, "error-kind")
        att["chunks"] = st.draw(1, 3, "chunks")
        plan.append(att)
        if kind not in TRANSIENT and kind not in ("httperror", "too_short"):
            break
    return plan


def gen_storm(st):
    scn = {"gen": "storm"}
    named = st.coin(1, 3, "named-world")
    scn["world"] = "named" if named else "synthetic"
    if named:
        names = list(named_world().ds)
        i = st.draw(0, len(names) - 1, "primary")
        scn["targets"] = [names[i]]
        if st.coin(1, 3, "secondary?"):
            j = (i + 1 + st.draw(0, 3, "secondary")) % len(names)
            if names[j] != names[i]:
                scn["targets"].append(names[j])
        scn["gzip"] = False
    else:
        scn["gzip"] = st.coin(1, 2, "gzip")
        size = st.weighted((4, 3, 2), "size-class")
        n = st.draw(3, 12) if size == 0 else (st.draw(13, 200) if size == 1 else st.draw(201, 1500))
        scn["rows"] = [n, st.draw(0, 2, "row-kind"), st.draw(0, 10 ** 6, "row-seed")]
        scn["format"] = [st.weighted((4, 1, 1, 1, 1), "csv-style"), st.weighted((0, 3, 1, 1), "gzip-members") if scn["gzip"] else 1]
        scn["targets"] = ["syn-x"]
        if st.coin(1, 4, "secondary?"):
            scn["targets"].append("syn-y")
    scn["setup"] = ("cold", "warm", "cold+litter", "warm+litter")[st.weighted((4, 3, 1, 1), "setup")]
    scn["home"] = ("env", "arg", "default", "env-tilde", "env-slash", "env-rel", "env-nested", "env-nohome")[st.weighted((8, 4, 2, 1, 1, 1, 1, 1), "home")]
    scn["discipline"] = ("sticky", "uniform", "pct", "vtime")[st.weighted((3, 3, 2, 2), "discipline")]
    if scn["discipline"] == "sticky":
        scn["burst"] = st.pick((8, 2, 32, 100), "mean-burst-length")
    if scn["discipline"] == "pct":
        scn["pct_points"] = [st.draw(0, 120, "pct-point") for _ in range(st.draw(0, 3, "pct-d"))]
    na = st.weighted((3, 4, 3, 2, 1, 1), "n-actors-class")
    n_actors = na + 1 if na < 4 else (st.draw(5, 8) if na == 4 else st.draw(9, 16))
    # one storm in eight is ONE process making 3..7 loads one after the other (G-sequence): "a later load returns
    # exactly that data" also within a process, whose module-level state (memo tables, caches) lives on between
    # the loads while the caller edits what it was given
    seq = st.coin(1, 8, "one-process-sequence")
    if seq:
        scn["discipline"] = "serial"
        scn["one_process"] = True
        n_actors = st.draw(3, 7, "sequence-length")
    mask = [k for k in FAULT_KINDS if st.coin(1, 2, "enable-" + k)]
    fault_num = st.draw(0, 3, "fault-rate")
    scn["enabled"] = mask
    scn["partition"] = [st.pick((0.0, 1.0, 10.0)), st.pick((0.5, 5.0, 60.0, 300.0))] if st.coin(1, 8, "partition?") else None
    crashes_on = not st.coin(1, 5, "no-crashes") and not seq
    scn["same_pid"] = n_actors > 1 and st.coin(1, 8, "same-pid-namespaces")
    actors = []
    for i in range(n_actors):
        a = {}
        a["target"] = scn["targets"][1] if len(scn["targets"]) > 1 and st.coin(1, 4, "to-secondary") else scn["targets"][0]
        if named:
            a["via"] = ("load_dataset", "fetch", "direct")[st.weighted((2, 2, 1), "via")]
            if a["via"] == "load_dataset" and scn["home"] == "arg":
                a["via"] = "fetch"      # load_dataset cannot pass data_home
        else:
            a["via"] = "direct"
        if a["via"] == "load_dataset":
            a["dim"], a["force"] = True, False
            a["n_retries"], a["delay"] = None, None
            # load_dataset accepts **kwargs (what it does with them is not specified, so such a call is judged only
            # by "whatever is returned is the verified data") - but they must never leak into LATER plain calls
            k = st.weighted((6, 1, 1, 1, 1), "load_dataset-kwargs")
            if k:
                a["ld_kwargs"] = ({"download_even_if_available": True}, {"download_if_missing": False},
                                  {"data_home": "<alt>"}, {"n_retries": 0, "delay": 0.0})[k - 1]
        else:
            a["dim"] = not st.coin(1, 6, "no-dim")
            a["force"] = st.coin(1, 4, "force")
            a["n_retries"] = None if st.coin(1, 2, "default-retries") else st.draw(0, 4, "n_retries")
            a["delay"] = st.pick((None, 0.0, 0.25, 5.0), "delay")
        a["unpack"] = st.coin(1, 2 if seq else 4, "unpack")
        r = DEFAULT_RETRIES if a["n_retries"] is None else a["n_retries"]
        a["plan"] = gen_plan(st, r, fault_num, mask)
        ck = st.weighted((5, 3, 3, 2), "crash-kind") if crashes_on else (st.weighted((5, 0, 0, 2), "crash-kind") if seq else 0)
        if ck == 1:
            a["crash_at"] = st.draw(1, 60, "crash-at")
        elif ck == 2:
            a["crash_site"] = [st.pick(CRASH_SITES, "crash-site"), st.draw(1, 3, "crash-occ")]
        elif ck == 3:
            a["interrupt_at"] = st.draw(1, 60, "interrupt-at")      # SIGINT: the loader unwinds through its clean-up code
        sa = st.weighted((5, 2, 1), "start")
        a["start_after"] = 0 if sa == 0 or seq else (st.draw(1, 60) if sa == 1 else st.draw(61, 400))
        a["speed"] = st.pick((1.0, 1.0, 1.0, 3.0, 30.0, 1000.0), "speed")
        a["split"] = st.draw(0, 7, "split-write")
        a["collide"] = i > 0 and st.coin(1, 10, "collide")
        actors.append(a)
    scn["actors"] = actors
    return scn


# ----------------------------------------------------------------------------- one simulated run
class Violation(Exception):
    def __init__(self, cls, key, msg):
        super().__init__(msg)
        self.cls, self.key, self.msg = cls, key, msg


class Run:
    def __init__(self, scn, stream, keep_log=False, prop="C19"):
        self.scn = scn
        self.prop = prop
        self.st = stream
        self.keep_log = keep_log
        self.root = new_run_root()
        self.env_home = os.path.join(self.root, "home")
        self.alt_home = os.path.join(self.root, "alt")
        self.user_home = os.path.join(self.root, "user")
        os.makedirs(self.user_home)
        mode = scn.get("home", "env")
        self.home = {"env": self.env_home, "arg": self.alt_home,
                     "default": os.path.join(self.user_home, ".traffic-weaver-data"),
                     "env-tilde": os.path.join(self.user_home, "custom-data"),
                     "env-slash": self.env_home,
                     "env-nohome": self.env_home,            # HOME is not in the environment (cron, systemd, env -i)
                     "env-rel": os.path.join(self.root, "rel", "data-home"),
                     # neither the directory nor its parents exist yet (a fresh workspace)
                     "env-nested": os.path.join(self.root, "fresh", "workspace", "cache", "traffic-weaver")}[mode]
        self.env_value = {"env": self.env_home, "env-nohome": self.env_home, "env-tilde": os.path.join("~", "custom-data"),
                          "env-slash": self.env_home + os.sep, "env-rel": os.path.join("rel", "data-home"),
                          "env-nested": os.path.join(self.root, "fresh", "workspace", "cache", "traffic-weaver")}.get(mode, "")
        self.home_mode = mode
        self.world = self._build_world()
        self.targets = [self.world.ds[t] for t in scn["targets"]]
        self.slot_names = {d.slot for d in self.world.ds.values()}
        self.archive_names = {d.remote_filename for d in self.world.ds.values()}
        self.sim = K.Sim(stream, self.root, classify=self.classify, keep_log=keep_log)
        self.sim.world = self.world
        # the system temporary directory of the simulated host: inside the scratch root (nothing leaks into the real
        # /tmp), but a different mount than the data home, as /tmp usually is
        self.systmp = os.path.join(self.root, "systmp")
        os.makedirs(self.systmp)
        self.sim.other_fs = self.systmp
        self.sim.procs = isolate.process_states()
        # sequential scenarios: half of them are one process making several calls (module state carries over), half are
        # one process per load; concurrent loaders are always separate processes
        self.one_process = scn.get("discipline") == "serial" and scn.get("one_process", True)
        self.sim.net_handler = self.net_handler
        self.sim.crash_prefixes = CRASH_SITES
        self.hist = {d.name: [(0, False)] for d in self.targets}
        self.violation = None
        self.stats = self.sim.stats
        self.base = importlib.import_module("traffic_weaver.datasets._base")
        self.datasets = importlib.import_module("traffic_weaver.datasets")
        self.phase = "setup"
        self.storm_t0 = 0.0
        self.conflict = []

    # -- world
    def _build_world(self):
        scn = self.scn
        if scn["world"] == "named":
            return named_world()
        w = World()
        n, kind, seed = scn["rows"]
        rnd = random.Random(seed)
        fmt = scn.get("format", [0, 1])
        w.add(synthetic_ds("syn-x", 1, _rows_from_rng(rnd, n, kind), scn.get("gzip", False), fmt[0], fmt[1]))
        w.add(synthetic_ds("syn-y", 2, _rows_from_rng(rnd, max(3, n // 2 + 1), kind), scn.get("gzip", False), fmt[0], 1))
        return w

    def classify(self, full):
        for h in (self.home, self.env_home, self.alt_home):
            if full == h:
                return "home", "."
            if full.startswith(h + os.sep):
                rel = full[len(h) + 1:]
                parts = rel.split(os.sep)
                if len(parts) == 1:
                    return "dir", rel
                if len(parts) == 2:
                    if parts[1] in self.slot_names:
                        return "slot", rel
                    if parts[1].startswith("tmp"):
                        return "tmpdir", rel
                    return "other", rel
                if len(parts) == 3 and parts[1].startswith("tmp"):
                    if parts[2] in self.slot_names:
                        return "tmp.pickle", rel
                    if parts[2] in self.archive_names:
                        return "tmp.archive", rel
                    return "tmp.other", rel
                return "deep", rel
        return "root", os.path.relpath(full, self.root)

    def slot_path(self, ds):
        return os.path.join(self.home, ds.folder, ds.slot)

    # -- the fake remote
    def net_handler(self, sim, a, fn_name, args, kwargs):
        url = args[0] if args else kwargs.get("url")
        if not isinstance(url, str):
            url = getattr(url, "full_url", str(url))
        filename = (args[1] if len(args) > 1 else kwargs.get("filename")) if fn_name == "urlretrieve" else None
        a.attrs["net_calls"] = a.attrs.get("net_calls", 0) + 1
        a.attrs.setdefault("urls", []).append(url)
        ds = self.world.by_url.get(canonical_remote(url))
        k = a.attrs.get("attempt", 0)
        plan = a.attrs.get("plan") or []
        att = plan[k] if k < len(plan) else {"kind": "ok", "latency": 0.05, "chunks": 1}
        latency = att.get("latency", 0.05)
        nchunks = max(1, att.get("chunks", 1))
        # the connection takes a share of the attempt's latency, the body transfer the rest (per chunk)
        sim.yield_point(a, "net.before", ds.name if ds else "unknown-url", cost=latency / (nchunks + 1))
        if a.attrs.get("net_mode") == "down":
            a.attrs["touched"] = True
            raise K.NetworkTouched(url)
        a.attrs["attempt"] = k + 1
        kind = att["kind"]
        a.attrs["chunk_cost"] = latency / (nchunks + 1)
        part = self.scn.get("partition")
        t_now = sim.vtime - self.storm_t0
        if part and part[0] <= t_now < part[0] + part[1] and self.phase == "storm":
            kind = "urlerror"
            sim.stats["fault:partition"] += 1
        elif part and t_now >= part[0] + part[1] and self.phase == "storm":
            sim.stats["probe:partition-healed"] += 1
        if kind != "ok":
            sim.stats["fault:" + kind] += 1
        if ds is None:
            e = urllib.error.HTTPError(url, 404, "simulated: no such file", {}, None)
            a.attrs.setdefault("injected", []).append(("unknown-url", e))
            raise e
        body = ds.body
        partial = att.get("partial", 0)
        exc = None
        if kind == "urlerror":
            exc = urllib.error.URLError("simulated: connection refused")
        elif kind == "timeout":
            exc = TimeoutError("simulated: timed out")
        elif kind == "httperror":
            exc = urllib.error.HTTPError(url, 503, "simulated: service unavailable", {}, None)
        elif kind == "too_short":
            exc = urllib.error.ContentTooShortError("simulated: retrieval incomplete", (filename, {}))
            partial = max(partial, 1)
        elif kind == "fatal":
            exc = FATAL_ERRORS[att.get("exc", 0) % len(FATAL_ERRORS)]()
        elif kind == "corrupt_flip":
            body = self.corrupt_body(ds, "flip")
        elif kind == "corrupt_trunc":
            body = self.corrupt_body(ds, "trunc")
        elif kind == "corrupt_empty":
            body = b""
        elif kind == "cross_served":
            others = [d for d in self.world.ds.values() if canonical_remote(d.url) != canonical_remote(ds.url)]
            body = others[(k + a.id) % len(others)].body if others else b"oops\n"
        a.attrs.setdefault("injected", []).append((kind, exc))
        if exc is not None:
            if partial and filename is not None and fn_name == "urlretrieve":
                with open(filename, "wb") as f:
                    f.write(body[: max(1, len(body) * partial // 8)])
            raise exc
        if fn_name == "urlopen":
            return _FakeResponse(body, url)
        chunks = max(1, att.get("chunks", 1))
        with open(filename, "wb") as f:
            n = len(body)
            cuts = [n * i // chunks for i in range(chunks + 1)]
            for i in range(chunks):
                if cuts[i + 1] > cuts[i] or chunks == 1:
                    a.next_cost = a.attrs.get("chunk_cost")
                    f.write(body[cuts[i]:cuts[i + 1]])
        return filename, {}

    def corrupt_body(self, ds, how):
        rows = list(ds.rows)
        if how == "flip":
            i = len(rows) // 2
            rows[i] = (rows[i][0], rows[i][1] + 1.0)
        else:
            rows = rows[: max(2, len(rows) // 2)]
        raw = _encode_csv(rows, getattr(ds, "style", 0) or 0)
        return _compress(raw, getattr(ds, "members", 1) or 1) if ds.gzip else raw

    # -- loaders
    def make_loader(self, spec):
        ds = self.world.ds.get(spec.get("target"))
        run = self

        def fn():
            if spec.get("raw_name") is not None:
                kwargs = {} if spec.get("unpack") is None else {"unpack_dataset_columns": spec["unpack"]}
                return run.datasets.load_dataset(spec["raw_name"], **kwargs)
            kw = {}
            via = spec["via"]
            if via != "load_dataset":
                if spec.get("dim") is False:
                    kw["download_if_missing"] = False
                if spec.get("force"):
                    kw["download_even_if_available"] = True
                if spec.get("n_retries") is not None:
                    kw["n_retries"] = spec["n_retries"]
                if spec.get("delay") is not None:
                    kw["delay"] = spec["delay"]
                if run.home_mode == "arg":
                    kw["data_home"] = run.alt_home
                if spec.get("unpack"):
                    kw["unpack_dataset_columns"] = True
            if via == "direct":
                RemoteFileMetadata = run.base.RemoteFileMetadata
                remote = RemoteFileMetadata(filename=ds.remote_filename, url=ds.url, checksum=ds.pinned)
                if ds.gzip:
                    kw["gzip"] = True
                return run.base.load_csv_dataset_from_remote(remote=remote, dataset_filename=ds.slot,
                                                             dataset_folder=ds.folder, **kw)
            if via == "fetch":
                return getattr(importlib.import_module(ds.func_module), ds.func_name)(**kw)
            name = spec.get("spelling") or ds.name
            extra = dict(spec.get("ld_kwargs") or {})
            if extra.get("data_home") == "<alt>":
                extra["data_home"] = os.path.join(run.root, "elsewhere")
            return run.datasets.load_dataset(name, unpack_dataset_columns=bool(spec.get("unpack")), **extra)
        return fn

    def spawn_loader(self, spec, role="loader"):
        a = self.sim.spawn(role, self.make_loader(spec), start_after=spec.get("start_after", 0) + self.sim.step)
        a.attrs["spec"] = spec
        a.attrs["plan"] = spec.get("plan") or []
        a.attrs["split_write"] = spec.get("split", 0)
        a.attrs["net_mode"] = spec.get("net_mode", "up")
        a.speed = spec.get("speed", 1.0)
        a.crash_at = spec.get("crash_at")
        a.interrupt_at = spec.get("interrupt_at")
        cs = spec.get("crash_site")
        a.crash_site = (cs[0], cs[1]) if cs else None
        if spec.get("collide"):
            a.name_collide = "00n001x"
        if self.scn.get("same_pid"):
            a.attrs["pid"] = 1
        if self.one_process and role != "offline":
            a.attrs["proc"] = ("process", 0)
        a.attrs["first_step"] = None
        a.attrs["last_step"] = None
        return a

    # -- oracles
    def fail(self, cls, key, msg):
        raise Violation(f"{self.prop}/{cls}", key, msg)

    def matches(self, value, ds, unpack):
        exp = ds.expected
        if unpack:
            return (isinstance(value, tuple) and len(value) == 2
                    and all(isinstance(v, np.ndarray) for v in value)
                    and np.array_equal(value[0], exp[:, 0]) and np.array_equal(value[1], exp[:, 1])
                    and value[0].dtype == np.float64)
        return isinstance(value, np.ndarray) and value.dtype == np.float64 and value.shape == exp.shape \
            and np.array_equal(value, exp)

    def whose(self, value):
        for d in self.world.ds.values():
            try:
                if self.matches(value, d, False):
                    return d.name
            except Exception:
                pass
        return None

    def probe(self, ds):
        """P1: what would a later, offline load of `ds` see right now?  True = complete genuine copy,
        False = absent.  Anything else is a violation."""
        path = self.slot_path(ds)
        exists = os.path.lexists(path)
        RemoteFileMetadata = self.base.RemoteFileMetadata
        remote = RemoteFileMetadata(filename=ds.remote_filename, url=ds.url, checksum=ds.pinned)
        kw = {"download_if_missing": False}
        if self.home_mode == "arg":
            kw["data_home"] = self.alt_home
        if ds.gzip:
            kw["gzip"] = True
        self.sim.probe_active = True
        if self.sim.procs is not None:
            self.sim.procs.switch_to(("probe",), fresh=True)      # "a later load": a new process
        try:
            with warnings.catch_warnings():
                warnings.simplefilter("ignore")
                value = self.base.load_csv_dataset_from_remote(remote=remote, dataset_filename=ds.slot,
                                                               dataset_folder=ds.folder, **kw)
        except K.NetworkTouched:
            self.sim.probe_active = False
            if exists:
                self.fail("P6/network-used-on-cache-hit", f"dataset={ds.name}",
                          f"step {self.sim.step}: an offline load (download_if_missing=False) of the cached {ds.name} "
                          f"went to the network")
            self.fail("P4/download-although-forbidden", f"dataset={ds.name}",
                      f"step {self.sim.step}: a load of {ds.name} with download_if_missing=False and no cache entry "
                      f"went to the network instead of raising OSError")
        except OSError as e:
            if exists:
                self.fail("P1/cache-entry-unusable", f"dataset={ds.name}",
                          f"step {self.sim.step}: cache entry {ds.folder}/{ds.slot} exists "
                          f"({os.path.getsize(path) if os.path.isfile(path) else 'non-file'} bytes) but an offline load "
                          f"raises {type(e).__name__}: {e}")
            return False
        except K.NetworkEscape:
            raise
        except Exception as e:
            size = os.path.getsize(path) if os.path.isfile(path) else -1
            self.fail("P1/cache-entry-corrupt", f"dataset={ds.name}",
                      f"step {self.sim.step}: cache entry {ds.folder}/{ds.slot} ({size} bytes) is not a complete copy: "
                      f"an offline load raises {type(e).__name__}: {e}")
        finally:
            self.sim.probe_active = False
        if not self.matches(value, ds, False):
            who = self.whose(value)
            if who is not None:
                self.fail("P1/cache-entry-crossed", f"dataset={ds.name}",
                          f"step {self.sim.step}: cache entry for {ds.name} holds the data of {who}")
            self.fail("P1/cache-entry-unverified-data", f"dataset={ds.name}",
                      f"step {self.sim.step}: cache entry for {ds.name} holds data that is not the verified payload "
                      f"(shape {getattr(value, 'shape', None)})")
        return True

    def check_slots(self):
        for ds in self.targets:
            state = self.probe(ds)
            h = self.hist[ds.name]
            if h[-1][1] != state:
                if h[-1][1] and not state:
                    # "absent or complete" allows it, so it is no violation - but a complete entry that goes away
                    # (an unlink before the replacement is in place) makes concurrent readers go to the network
                    self.stats["probe:complete-entry-became-absent"] += 1
                h.append((self.sim.step, state))

    def on_step(self, a, performed):
        if a.attrs.get("first_step") is None:
            a.attrs["first_step"] = self.sim.step
        a.attrs["last_step"] = self.sim.step
        if performed is None or performed.startswith(WRITE_CLASS) or a.state in (K.DONE,):
            self.check_slots()
        if performed and ("slot" in performed):
            self.conflict.append((a.role, performed))

    def state_before(self, ds, step):
        s = False
        for t, v in self.hist[ds.name]:
            if t <= step:
                s = v
        return s

    def changed_during(self, ds, t0, t1):
        return any(t0 < t <= t1 + 1 for t, _ in self.hist[ds.name])

    def overlapped(self, a):
        f, l = a.attrs.get("first_step"), a.attrs.get("last_step")
        if f is None:
            return False
        for b in self.sim.actors:
            if b is a or b.attrs.get("first_step") is None:
                continue
            if b.attrs["first_step"] <= l and f <= b.attrs["last_step"]:
                return True
        return False

    def judge(self, a):
        self._judge(a)
        # the returned arrays belong to the caller: once judged, modify them in place (as callers do); no later
        # load, by anyone, may be affected by that
        if a.attrs["spec"].get("raw_name") is None and a.state == K.DONE:
            parts = a.result if isinstance(a.result, tuple) else (a.result,)
            for part in parts:
                if isinstance(part, np.ndarray) and part.size and part.flags.writeable:
                    part[...] = -1.0 - part[::-1]

    def _judge(self, a):
        spec = a.attrs["spec"]
        if spec.get("raw_name") is not None:
            return
        ds = self.world.ds[spec["target"]]
        key = f"dataset={ds.name}"
        who = f"actor {a.id} ({a.role}, via {spec['via']}, dim={spec.get('dim', True)}, force={spec.get('force', False)})"
        if a.state == K.CRASHED or a.state != K.DONE:
            return
        if spec.get("ld_kwargs"):
            if a.exc is None and not self.matches(a.result, ds, bool(spec.get("unpack"))):
                self.fail("P2/returned-unverified-data", key, f"{who} called with {spec['ld_kwargs']} returned data that is "
                          f"not the verified payload of {ds.name}")
            if isinstance(a.exc, (K.NetworkEscape, K.HarnessTimeout)):
                raise a.exc
            self.stats["probe:load_dataset-with-kwargs"] += 1
            return
        net_calls = a.attrs.get("net_calls", 0)
        exc = a.exc
        returned = exc is None
        if isinstance(exc, K.NetworkEscape):
            raise exc
        if isinstance(exc, (K.HarnessTimeout,)):
            raise exc
        # P2: whatever is returned is the verified data of the dataset asked for
        if returned and not self.matches(a.result, ds, bool(spec.get("unpack"))):
            w = self.whose(a.result if not isinstance(a.result, tuple) else None)
            self.fail("P2/returned-unverified-data", key,
                      f"{who} returned data that is not the verified payload of {ds.name}"
                      + (f" (it is the payload of {w})" if w else f" (type {type(a.result).__name__}, "
                         f"shape {getattr(a.result, 'shape', None)})"))
        if isinstance(exc, K.NetworkTouched):
            self.fail("P6/network-used-on-cache-hit", key, f"{who}: the cache entry was present, yet the network was used")
        if a.interrupted:
            # SIGINT was delivered: whatever the loader did with it (propagate, or carry on), only what it returned (P2,
            # above) and the state of the cache (P1, after every step of its unwinding) are judged
            self.stats["probe:interrupted-loader-" + ("returned" if returned else "raised")] += 1
            return
        r = DEFAULT_RETRIES if spec.get("n_retries") is None else spec["n_retries"]
        dim, force = spec.get("dim", True), spec.get("force", False)
        t0, t1 = a.attrs.get("first_step"), a.attrs.get("last_step")
        before = self.state_before(ds, t0)
        stable = not self.changed_during(ds, t0, t1)
        injected = a.attrs.get("injected", [])
        kinds = [k for k, _ in injected]
        # P6: present throughout and no re-download requested -> no network, data served
        if before and stable and not (dim and force) and a.attrs.get("net_mode") != "down":
            if net_calls:
                self.fail("P6/network-used-on-cache-hit", key, f"{who}: cache entry present throughout, "
                          f"yet {net_calls} network call(s) were made")
            if not returned:
                self.fail("P6/cache-hit-failed", key, f"{who}: cache entry present throughout but the load raised "
                          f"{type(exc).__name__}: {exc}")
        # P4b: absent throughout and downloads forbidden -> OSError
        if (not before) and stable and not dim:
            if returned or not isinstance(exc, OSError):
                self.fail("P4/missing-without-download-not-OSError", key,
                          f"{who}: cache absent and download_if_missing=False must raise OSError, got "
                          + ("a return value" if returned else f"{type(exc).__name__}: {exc}"))
            if net_calls:
                self.fail("P4/download-although-forbidden", key, f"{who}: download_if_missing=False but "
                          f"{net_calls} network call(s) were made")
        if net_calls and not dim:
            self.fail("P4/download-although-forbidden", key, f"{who}: download_if_missing=False but {net_calls} "
                      f"network call(s) were made")
        if net_calls == 0:
            if dim and ((not before and stable) or (force and before and stable)):
                if returned:
                    self.fail("P2/data-without-download", key, f"{who} returned data without any download although "
                              + ("the cache was absent" if not before else "a re-download was requested"))
            return
        # ---- the actor went to the network: retry accounting (P3), checksum (P4) ----
        f = 0
        while f < len(kinds) and kinds[f] in TRANSIENT:
            f += 1
        plan = spec.get("plan") or []
        planned = [p["kind"] for p in plan]
        # leading transient failures as actually served (partition turns attempts into urlerror)
        terminal = kinds[f] if f < len(kinds) else None
        lenient = any(k in LENIENT or k == "unknown-url" for k in kinds)
        foreign = (not returned) and not any(exc is e for _, e in injected if e is not None) \
            and not (terminal in CORRUPT and isinstance(exc, OSError))
        if foreign and self.overlapped(a):
            # an error that is neither an injected one nor the checksum error, in a loader that overlapped with
            # others: the property promises a sound cache afterwards, not that every concurrent load succeeds
            self.stats["probe:overlap-unexpected-exception"] += 1
            return
        if net_calls > r + 1 and not lenient:
            self.fail("P3/retry-count", key, f"{who}: n_retries={r} allows at most {r + 1} attempts, saw {net_calls} ({kinds})")
        if not lenient and not stable:
            # the cache entry appeared or was replaced while this loader ran: it may legitimately stop retrying and
            # use the entry, so only the upper bound on attempts (above) and the returned data (P2) are judged
            self.stats["probe:retry-accounting-relaxed-slot-changed"] += 1
        elif not lenient:
            if f > r:
                if net_calls != r + 1:
                    self.fail("P3/retry-count", key, f"{who}: n_retries={r}, {f}+ consecutive transient failures served; "
                              f"expected exactly {r + 1} attempts, saw {net_calls} ({kinds})")
                want = injected[r][1]
                chain, e = [], exc
                while e is not None and len(chain) < 10:
                    chain.append(e)
                    e = e.__cause__ or e.__context__
                if returned or not any(c is want for c in chain):
                    self.fail("P3/error-not-propagated", key,
                              f"{who}: after {r + 1} failed attempts the last download error ({type(want).__name__}) "
                              f"must propagate; got " + ("a return value" if returned else f"{type(exc).__name__}: {exc}"))
            else:
                if net_calls != f + 1:
                    self.fail("P3/retry-count", key, f"{who}: n_retries={r}, {f} transient failure(s) then "
                              f"'{terminal}': expected {f + 1} attempts, saw {net_calls} ({kinds}; planned {planned})")
                if not returned and any(exc is e for _, e in injected[:f]):
                    self.fail("P3/transient-error-not-absorbed", key,
                              f"{who}: failure {kinds.index(next(k for k, e in injected if e is exc)) + 1} of {f} "
                              f"escaped although n_retries={r}")
                if terminal in CORRUPT and returned and self.overlapped(a):
                    # the data it returned is the verified payload (P2 above): with other loaders around it may have
                    # been served the entry one of them completed; only a lone loader must answer a bad body with OSError
                    self.stats["probe:corrupt-body-but-served-by-concurrent-loader"] += 1
                elif terminal in CORRUPT:
                    if returned or not isinstance(exc, OSError):
                        self.fail("P4/checksum-mismatch-not-OSError", key,
                                  f"{who}: the downloaded body was '{terminal}' (SHA-256 differs from the pinned one); "
                                  f"expected OSError, got " + ("a return value" if returned else f"{type(exc).__name__}: {exc}"))
                elif terminal == "ok":
                    if not returned:
                        if self.overlapped(a):
                            self.stats["probe:overlap-unexpected-exception"] += 1
                        else:
                            self.fail("P5/healthy-load-failed", key,
                                      f"{who}: {f} absorbed failure(s) then a genuine download, no concurrent loader, "
                                      f"yet the load raised {type(exc).__name__}: {exc}")


    # -- phases
    def setup(self):
        scn = self.scn
        os.environ["HOME"] = self.user_home
        if self.home_mode == "env-nohome":
            del os.environ["HOME"]          # the data home is named explicitly: nothing may need HOME
        if self.home_mode.startswith("env"):
            os.environ["TRAFFIC_WEAVER_DATA"] = self.env_value
            if self.home_mode == "env-rel":
                os.makedirs(os.path.join(self.root, "rel"), exist_ok=True)
                os.chdir(self.root)
        elif self.home_mode == "arg":
            os.environ["TRAFFIC_WEAVER_DATA"] = os.path.join(self.root, "must-not-be-used")
        else:
            os.environ.pop("TRAFFIC_WEAVER_DATA", None)
        self.sim.discipline = "serial"
        setup = scn.get("setup", "cold")
        if setup.startswith("warm"):
            ds = self.targets[0]
            via = "direct" if ds.synthetic else "fetch"
            a = self.spawn_loader({"target": ds.name, "via": via, "plan": []}, role="warmup")
            self.sim.run(on_step=self.on_step, step_cap=STEP_CAP)
            if a.exc is not None or not self.matches(a.result, ds, False):
                self.judge(a)
                self.fail("P5/healthy-load-failed", f"dataset={ds.name}",
                          f"fault-free first load of {ds.name} on a cold cache raised "
                          f"{type(a.exc).__name__}: {a.exc}")
            self.judge(a)
        if setup.endswith("litter"):
            ds = self.targets[0]
            d = os.path.join(self.home, ds.folder)
            os.makedirs(os.path.join(d, "tmplitter0"), exist_ok=True)
            with open(os.path.join(d, "tmplitter0", ds.remote_filename), "wb") as f:
                f.write(ds.body[: len(ds.body) // 2])
            os.makedirs(os.path.join(d, "tmp00n001x"), exist_ok=True)      # the name actor 0 would pick first
            with open(os.path.join(d, "tmp00n001x", ds.slot), "wb") as f:
                f.write(b"\x80\x04\x95partial")
            old = K.CLOCK_BASE - 3600.0          # left behind by a load that was killed an hour ago
            for sub in ("tmplitter0", "tmp00n001x"):
                for pth in (os.path.join(d, sub, ds.remote_filename), os.path.join(d, sub, ds.slot), os.path.join(d, sub)):
                    if os.path.exists(pth):
                        os.utime(pth, (old, old))
            self.stats["probe:started-with-litter"] += 1

    def storm(self):
        scn = self.scn
        self.phase = "storm"
        self.storm_t0 = self.sim.vtime
        self.sim.discipline = scn.get("discipline", "sticky")
        self.sim.pct_points = set(p + self.sim.step for p in scn.get("pct_points", ()))
        self.sim.sticky_den = scn.get("burst", 8)
        actors = []
        for i, spec in enumerate(scn["actors"]):
            a = self.spawn_loader(spec, role=f"loader{i}")
            a.priority = (i * 7919) % 13
            actors.append(a)
        if self.sim.discipline == "script":
            self.sim.script = [list(seg) for seg in scn.get("script", [])]
            self.sim.script_actors = actors
        self.sim.run(on_step=self.on_step, step_cap=STEP_CAP)
        for a in actors:
            self.judge(a)
        return actors

    def calm(self):
        """Faults have stopped: a fresh default load must succeed (P5), then an offline load (P6)."""
        self.phase = "calm"
        self.sim.discipline = "serial"
        for ds in self.targets:
            via = "direct" if ds.synthetic else ("load_dataset" if self.home_mode != "arg" else "fetch")
            s0 = self.sim.step
            a = self.spawn_loader({"target": ds.name, "via": via, "plan": []}, role="fresh")
            self.sim.run(on_step=self.on_step, step_cap=s0 + CALM_STEP_BUDGET)
            key = f"dataset={ds.name}"
            if a.exc is not None:
                if isinstance(a.exc, (K.NetworkEscape, K.HarnessTimeout)):
                    raise a.exc
                self.fail("P5/no-recovery", key, f"after the faults stopped, a fresh default load of {ds.name} raised "
                          f"{type(a.exc).__name__}: {a.exc}")
            self.judge(a)
            if a.attrs.get("net_calls", 0) > 1:
                self.fail("P5/no-recovery", key, f"fresh load needed {a.attrs['net_calls']} attempts on a healthy network")
            b = self.spawn_loader({"target": ds.name, "via": via, "plan": [], "net_mode": "down"}, role="offline")
            self.sim.run(on_step=self.on_step, step_cap=self.sim.step + CALM_STEP_BUDGET)
            if isinstance(b.exc, K.NetworkTouched):
                self.fail("P6/network-used-on-cache-hit", key, f"offline load of the cached {ds.name} used the network")
            if b.exc is not None:
                self.fail("P6/cache-hit-failed", key, f"offline load of the cached {ds.name} raised "
                          f"{type(b.exc).__name__}: {b.exc}")
            self.judge(b)
        self.check_slots()


class _FakeResponse(io.BytesIO):
    def __init__(self, body, url):
        super().__init__(body)
        self.url, self.status, self.headers = url, 200, {"Content-Length": str(len(body))}

    def info(self):
        return self.headers

    def geturl(self):
        return self.url

    def getcode(self):
        return 200


def execute(scn, stream, keep_log=False, extra=None, prop="C19"):
    """Run one scenario. Returns a runner.Result.  `extra(run, storm_actors)` may add oracles (raise Violation)."""
    K.install()
    isolate.reset_library_state()
    res = R.Result()
    saved_env = {k: os.environ.get(k) for k in ("HOME", "TRAFFIC_WEAVER_DATA", "TMPDIR")}
    saved_tempdir = tempfile.tempdir
    run = None
    try:
        with warnings.catch_warnings():
            warnings.simplefilter("ignore")
            run = Run(scn, stream, keep_log, prop=prop)
            tempfile.tempdir = run.systmp
            os.environ["TMPDIR"] = run.systmp
            K.activate(run.sim)
            if scn.get("case") is not None:
                run.sim.note(-1, "CASE", repr(scn["case"]))
            try:
                try:
                    run.setup()
                    storm_actors = run.storm()
                    if extra is not None:
                        extra(run, storm_actors, "pre")
                    run.calm()
                    if extra is not None:
                        extra(run, storm_actors, "post")
                    if run.sim.outside_writes:
                        run.stats["probe:writes-outside-the-scratch-root"] += len(run.sim.outside_writes)
                except Violation as v:
                    res.violation = {"cls": v.cls, "key": v.key, "msg": v.msg}
                    run.sim.note(-1, "VIOLATION", v.cls)
                except K.StepCap as e:
                    res.violation = {"cls": f"{prop}/P3/no-termination", "key": "step-cap", "msg": str(e)}
                    run.sim.note(-1, "VIOLATION", "step-cap")
            finally:
                try:
                    run.sim.reap()
                finally:
                    K.deactivate()
    finally:
        os.chdir(R.VERIF_DIR)
        tempfile.tempdir = saved_tempdir
        for k, v in saved_env.items():
            if v is None:
                os.environ.pop(k, None)
            else:
                os.environ[k] = v
        if run is not None:
            shutil.rmtree(run.root, ignore_errors=True)
    sim = run.sim
    for a in sim.actors:
        sim.note(a.id, "END", (a.state, type(a.exc).__name__ if a.exc is not None else "ok", a.attrs.get("net_calls", 0)))
    res.digest = sim.digest()
    res.stats = sim.stats
    res.vtime = sim.vtime
    res.steps = sim.step
    res.choices = list(stream.rec)
    crashed = sum(1 for a in sim.actors if a.state == K.CRASHED)
    storm_actors = [a for a in sim.actors if a.role.startswith("loader")]
    faults = sum(v for k, v in sim.stats.items() if k.startswith("fault:"))
    res.nontrivial = faults > 0 or len(storm_actors) > 1
    # reach probes
    st = sim.stats
    roles_on_slot = [(r, p.split(":")[0]) for r, p in run.conflict]
    renames = [r for r, p in run.conflict if p.startswith("rename")]
    if len(renames) >= 2:
        st["probe:two-renames-onto-one-slot"] += 1
    if any(p.startswith("open-r:slot") for _, p in run.conflict) and renames:
        st["probe:reader-and-writer-of-slot-in-one-run"] += 1
    if crashed:
        st["probe:runs-with-crash"] += 1
    if any(k.startswith("site:mkdir:tmpdir") for k in st) and st.get("probe:temp-name-collision-injected"):
        st["probe:temp-name-collision-retried"] += 1
    st["actors"] += len(storm_actors)
    res.marks = {"conflict-projection": hashlib.sha256(repr(run.conflict).encode()).hexdigest()[:16],
                 "scenario-kind": (scn.get("world"), scn.get("setup"), scn.get("discipline"), len(storm_actors),
                                   tuple(sorted(k[6:] for k in st if k.startswith("crash:"))))}
    res.sample = {"scenario": scn, "outcomes": [
        {"actor": a.id, "role": a.role, "state": a.state, "yields": a.yields, "net_calls": a.attrs.get("net_calls", 0),
         "result": ("exception " + type(a.exc).__name__) if a.exc is not None else ("data" if a.state == K.DONE else "-"),
         "crashed_before": a.pending if a.state == K.CRASHED else None} for a in sim.actors],
        "steps": sim.step, "simulated_seconds": round(sim.vtime, 4)}
    if keep_log:
        res.log = [list(r) for r in sim.log]
    return res


# ----------------------------------------------------------------------------- engine interface
def run_single(params, choices, keep_log=False):
    st = S.Stream(replay=choices)
    return _run(params, st, keep_log)


def _run(params, st, keep_log=False):
    gen = params.get("gen", "storm")
    if gen == "storm":
        scn = gen_storm(st)
    else:
        scn = params["scenario"]
    return execute(scn, st, keep_log)


def run_unit(params, seed):
    out = R.UnitOutcome()
    gen = params.get("gen", "storm")
    if gen == "sweep":
        # every crash point of one base scenario: learn N fault-free, then crash at 1..N
        base = params["scenario"]
        r0 = _run({"gen": "scn", "scenario": base}, S.Stream(seed=seed))
        out.add({"gen": "scn", "scenario": base}, r0)
        idx = params.get("crash_actor", 0)
        n = _yields_of(r0, idx)
        for k in range(1, n + 1):
            scn = _with_crash(base, idx, k)
            p = {"gen": "scn", "scenario": scn}
            out.add(p, _run(p, S.Stream(seed=seed)))
        out.stats["sweep:crash-points-enumerated"] += n
        for k in range(1, n + 1):
            scn = _with_crash(base, idx, k, key="interrupt_at")
            p = {"gen": "scn", "scenario": scn}
            out.add(p, _run(p, S.Stream(seed=seed)))
        out.stats["sweep:interrupt-points-enumerated"] += n
        return out
    if gen == "pairsweep":
        # two context switches, enumerated: A runs i steps, B runs j steps (and is then killed, or not), A finishes,
        # B finishes.  Every (i, j) of the base scenario is executed.
        base = params["scenario"]
        i = params["i"]
        nb = params["nb"]
        for j in range(1, nb + 1):
            for kill in (False, True):
                import copy
                scn = copy.deepcopy(base)
                scn["discipline"] = "script"
                scn["script"] = [[0, i], [1, j], [0, 10 ** 6], [1, 10 ** 6]]
                if kill:
                    scn["actors"][1]["crash_at"] = j
                p = {"gen": "scn", "scenario": scn}
                out.add(p, _run(p, S.Stream(seed=seed)))
        out.stats["pairsweep:schedules-enumerated"] += 2 * nb
        return out
    if gen == "triplesweep":
        # three phases: P starts and gets p1 steps, B starts and gets b0 steps, P runs to its end (it fails, or not);
        # then every schedule "B runs i steps, C runs j steps (and is then killed, or not), B finishes, C finishes"
        base = params["scenario"]
        i, nc, p1, b0 = params["i"], params["nc"], params["p1"], params["b0"]
        import copy
        for j in range(1, nc + 1):
            for kill in (False, True):
                scn = copy.deepcopy(base)
                scn["discipline"] = "script"
                scn["script"] = [[0, p1], [1, b0], [0, 10 ** 6], [1, i], [2, j], [1, 10 ** 6], [2, 10 ** 6]]
                if kill:
                    scn["actors"][2]["crash_at"] = j
                p = {"gen": "scn", "scenario": scn}
                out.add(p, _run(p, S.Stream(seed=seed)))
        out.stats["triplesweep:schedules-enumerated"] += 2 * nc
        return out
    res = _run(params, S.Stream(seed=seed))
    out.add(params, res)
    return out


def _yields_of(res, idx):
    for o in res.sample["outcomes"]:
        if o["role"] == f"loader{idx}":
            return o.get("yields", 0)
    return 0


def _with_crash(base, idx, k, key="crash_at"):
    import copy
    scn = copy.deepcopy(base)
    scn["actors"][idx][key] = k
    return scn


# ----------------------------------------------------------------------------- systematic generators
def _actor_spec(target, via="direct", **kw):
    spec = {"target": target, "via": via, "dim": True, "force": False, "n_retries": None, "delay": None, "unpack": False,
            "plan": [], "start_after": 0, "speed": 1.0, "split": 0, "collide": False}
    spec.update(kw)
    return spec


def _fail_plan(pattern, terminal="ok", chunks=2):
    plan = [{"kind": k, "latency": 0.2, "partial": 3 if i % 2 else 0, "chunks": 1} for i, k in enumerate(pattern)]
    plan.append({"kind": terminal, "latency": 0.2, "chunks": chunks})
    return plan


def base_scenarios():
    """The base scenarios whose every crash point is enumerated (G-sweep)."""
    out = []
    for setup, force in (("cold", False), ("warm", True), ("warm", False), ("warm+litter", True), ("cold+litter", False)):
        for gz in (False, True):
            for nf in (0, 1, 2):
                pattern = ["urlerror", "timeout"][:nf]
                actor = _actor_spec("syn-x", force=force, n_retries=2, delay=0.25, plan=_fail_plan(pattern), split=3)
                out.append({"gen": "scn", "world": "synthetic", "gzip": gz, "rows": [40 if not gz else 700, 1, 7 + nf],
                            "format": [nf if not gz else 0, 1 + nf if gz else 1],
                            "targets": ["syn-x"], "setup": setup, "home": "env", "discipline": "serial", "enabled": [],
                            "partition": None, "actors": [actor]})
    names = list(named_world().ds)
    for i, via in ((0, "load_dataset"), (len(names) // 2, "fetch"), (len(names) - 1, "load_dataset")):
        actor = _actor_spec(names[i], via=via, plan=_fail_plan(["urlerror"]), split=2)
        out.append({"gen": "scn", "world": "named", "gzip": False, "targets": [names[i]], "setup": "cold", "home": "env",
                    "discipline": "serial", "enabled": [], "partition": None, "actors": [actor]})
    return out


def retry_scenarios(sample_rng):
    out = []
    import itertools
    for r in range(0, 5):
        for f in range(0, r + 3):
            pats = list(itertools.product(TRANSIENT, repeat=f))
            if len(pats) > 16:
                pats = sample_rng.sample(pats, 16)
            for pat in pats:
                for terminal in ("ok", "corrupt_flip", "fatal", "cross_served"):
                    for setup, force in (("cold", False), ("warm", True)):     # first download, and forced refresh
                        actor = _actor_spec("syn-x", n_retries=r, delay=0.5, force=force,
                                            plan=_fail_plan(list(pat), terminal, chunks=1))
                        out.append({"gen": "scn", "world": "synthetic", "gzip": (f + r) % 2 == 1,
                                    "rows": [12, 2, r * 10 + f], "targets": ["syn-x"], "setup": setup, "home": "env",
                                    "discipline": "serial", "enabled": [], "partition": None, "actors": [actor]})
    return out


def pair_scenario(a, b, variant=0):
    first = _actor_spec(a, via="load_dataset")
    if variant:
        first["ld_kwargs"] = ({"download_even_if_available": True}, {"download_if_missing": True, "n_retries": 0},
                              {"data_home": "<alt>"})[variant - 1]
    return {"gen": "scn", "world": "named", "gzip": False, "targets": [a, b], "setup": "cold", "home": "env",
            "discipline": "serial", "enabled": [], "partition": None,
            "actors": [first, _actor_spec(b, via="load_dataset")]}


def pairsweep_scenarios(tier):
    """Base scenarios with two loaders of one dataset for the enumerated two-context-switch schedules."""
    out = []
    variants = [("cold", False, False, False), ("cold", True, False, False), ("warm", False, True, False),
                ("cold", True, False, True)]
    if tier != "quick":
        variants += [("cold+litter", True, False, False), ("warm", True, True, True), ("cold", False, False, True)]
    for setup, slow, force, gz in variants:
        a = _actor_spec("syn-x", force=force, n_retries=1, delay=0.25, split=2,
                        plan=[{"kind": "ok", "latency": 120.0 if slow else 0.2, "chunks": 2}], speed=30.0 if slow else 1.0)
        b = _actor_spec("syn-x", force=force, n_retries=1, delay=0.25, split=0,
                        plan=[{"kind": "ok", "latency": 0.2, "chunks": 2}])
        out.append({"gen": "scn", "world": "synthetic", "gzip": gz, "rows": [30, 1, 5], "targets": ["syn-x"],
                    "setup": setup, "home": "env", "discipline": "serial", "enabled": [], "partition": None,
                    "same_pid": setup == "cold" and not slow and not gz, "actors": [a, b]})
    return out


def triplesweep_scenarios(tier):
    """Three loaders of one dataset: a prelude loader P that fails (corrupt body) or succeeds while B has already
    started, then B and a late C in every two-context-switch schedule."""
    out = []
    variants = [("corrupt_flip", False, 9, 9)]
    if tier != "quick":
        variants += [("ok", True, 9, 9), ("corrupt_flip", False, 14, 12), ("urlerror", False, 9, 9)]
    for pkind, force, p1, b0 in variants:
        pplan = [{"kind": pkind, "latency": 0.2, "chunks": 1, "partial": 0}]
        p = _actor_spec("syn-x", force=force, n_retries=0, delay=0.0, plan=pplan)
        b = _actor_spec("syn-x", force=force, n_retries=0, delay=0.0, plan=[{"kind": "ok", "latency": 0.2, "chunks": 1}])
        c = _actor_spec("syn-x", force=force, n_retries=0, delay=0.0, plan=[{"kind": "ok", "latency": 0.2, "chunks": 2}], split=2)
        out.append(({"gen": "scn", "world": "synthetic", "gzip": False, "rows": [30, 1, 5], "targets": ["syn-x"],
                     "setup": "warm" if force else "cold", "home": "env", "discipline": "serial", "enabled": [],
                     "partition": None, "actors": [p, b, c]}, p1, b0))
    return out


def plan(tier, verif_seed):
    rng = random.Random(verif_seed * 1000003 + 19)
    units = []
    for scn in pairsweep_scenarios(tier):
        # learn how many yield points each of the two loaders has when run one after the other
        r0 = _run({"gen": "scn", "scenario": scn}, S.Stream(seed=1))
        na = _yields_of(r0, 0) + 1
        nb = max(na, _yields_of(r0, 1) + 1) + 8      # the second loader may download too, and take a longer path
        for i in range(0, na + 1):
            units.append({"gen": "pairsweep", "scenario": scn, "i": i, "nb": nb})
    for scn, p1, b0 in triplesweep_scenarios(tier):
        r0 = _run({"gen": "scn", "scenario": scn}, S.Stream(seed=1))
        nb = max(_yields_of(r0, 0), _yields_of(r0, 1)) + 6
        for i in range(0, nb + 1):
            units.append({"gen": "triplesweep", "scenario": scn, "i": i, "nc": nb, "p1": p1, "b0": b0})
    bases = base_scenarios()
    for scn in bases:
        units.append({"gen": "sweep", "scenario": scn, "crash_actor": 0})
        import copy
        two = copy.deepcopy(scn)
        two["actors"].append(_actor_spec(scn["actors"][0]["target"], via=scn["actors"][0]["via"],
                                         start_after=rng.randint(0, 25)))
        two["discipline"] = "uniform"
        units.append({"gen": "sweep", "scenario": two, "crash_actor": 0})
    for scn in retry_scenarios(rng):
        units.append({"gen": "scn", "scenario": scn})
    names = list(named_world().ds)
    pairs = [(a, b) for a in names for b in names if a != b]
    if tier == "quick":
        pairs = rng.sample(pairs, min(len(pairs), 400))
    for i, (a, b) in enumerate(pairs):
        scn = pair_scenario(a, b, variant=(i % 8) if i % 8 < 4 else 0)
        scn["one_process"] = (i // 8) % 3 != 2       # two thirds: one process loads A then B; one third: a process each
        units.append({"gen": "scn", "scenario": scn})
    n_storm = int(os.environ.get("VERIF_STORMS", "0")) or (12000 if tier == "quick" else 600000)
    units.extend({"gen": "storm"} for _ in range(n_storm))
    return units


def describe():
    n = len(named_world().ds)
    return {
        "rule": "Executions are simulated runs of 1..16 real loader threads (stand-ins for OS processes) over one data "
                "home on tmpfs, scheduled one at a time by a seeded scheduler with a fake remote, virtual sleep and "
                "kill-at-yield-point crashes, followed by a fault-free calm phase (fresh load, then offline load). "
                "Generators: G-sweep = every crash point of each base scenario (solo and with a second loader), "
                "G-triplesweep = the same enumeration for a second and a late third loader after a first loader that failed "
                "while the second had already started, "
                "G-retry = the table n_retries 0..4 x 0..n_retries+2 URLError/TimeoutError patterns x terminal outcome x "
                "{first download, forced refresh of an existing entry}, "
                "G-pairs = ordered pairs of named remote datasets loaded into one home, G-storm = seeded swarm over all "
                "of it. An execution is non-trivial when at least one fault (network fault, corrupt body, crash) fired "
                "or at least two storm loaders ran; distinct = distinct SHA-256 of the full event log "
                "(step, actor, seam site, path) plus final outcomes.",
        "assumptions": [
            "process death, not power loss: completed syscalls persist, user-space buffers vanish (tmpfs, POSIX rename)",
            "threads stand in for processes: the loader shares no process-global mutable state",
            "between two yield points an actor only changes private memory, so killing or pre-empting it only at yield "
            "points loses no distinguishable outcome",
            "CPython reference counting closes the unreferenced pickle file before the next statement",
            "genuine payloads of the named loaders hash to the digests pinned in the source (hash seam); the real "
            "figshare files are not available offline, so a wrong pinned digest cannot be detected",
            "validate_checksum is left at its default (True); opting out of verification is outside the property",
        ],
        "components": {
            "real": ["traffic_weaver.datasets.load_dataset", f"{n} fetch_* loaders", "load_csv_dataset_from_remote",
                     "_fetch_remote retry loop", "_sha256 (file reading, chunking, comparison)", "get_data_home",
                     "tempfile.TemporaryDirectory/mkdtemp", "shutil.rmtree", "os.rename/makedirs", "pickle", "gzip",
                     "numpy.loadtxt", "kernel tmpfs under /dev/shm"],
            "stub": ["urllib.request.urlretrieve/urlopen (fake remote with per-attempt fault plan)",
                     "time.sleep (virtual clock)", "tempfile name entropy (per-actor deterministic names)",
                     "hashlib.sha256 value for genuine named payloads (maps to the pinned digest)",
                     "socket.connect (raises: escape guard)"],
        },
        "extra": {"bounds": {"actors": "1..16", "steps_per_run": STEP_CAP, "payload_rows": "3..1500",
                             "n_retries": "0..4", "calm_phase_step_budget": CALM_STEP_BUDGET},
                  "exhaustive_subspaces": ["crash points of the base scenarios (G-sweep)", "retry table (G-retry)",
                                           "two-context-switch schedules of two loaders, with and without a kill of "
                                           "the second (G-pairsweep), and of a second and third loader after a failed "
                                           "first (G-triplesweep)",
                                           "ordered dataset pairs (G-pairs; thorough tier only)"]},
    }


def probe_warnings(tier, stats):
    need = ["fault:crash", "fault:urlerror", "fault:timeout", "fault:corrupt_flip", "fault:cross_served", "fault:fatal",
            "fault:partition", "probe:two-renames-onto-one-slot", "probe:reader-and-writer-of-slot-in-one-run",
            "probe:started-with-litter", "probe:temp-name-collision-injected", "crash:rename:tmp.pickle>slot",
            "crash:write.mid:tmp.pickle", "crash:net.before"]
    return [f"probe '{k}' never fired in this batch" for k in need if not stats.get(k)]
