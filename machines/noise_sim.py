"""C15: the only nondeterminism the property depends on is the process-global NumPy RNG, so that - and
nothing else - goes behind a seam.  Seam mode (exact): numpy.random.normal is a recording stub returning
loc + scale*z for known z.  Black-box mode (robust to refactoring): the real generator under fixed seeds,
reproducibility and >= 6-sigma statistical bounds on long series.  No schedule, no fault.
"""
import hashlib
import importlib
import warnings

import numpy as np

from simkit import isolate
from simkit import runner as R
from simkit import stream as S
from .weaver_sim import RngSeam, brief

PROPERTY = "C15"
LEVEL = "exploration"


class Violation(Exception):
    def __init__(self, cls, key, msg):
        super().__init__(msg)
        self.cls, self.key, self.msg = cls, key, msg


def gen_signal(st, n):
    k = st.weighted((4, 6, 6, 4, 2, 1, 1), "signal")   # constant, positive, sign-changing, integer, zeros, large ints
    if k == 0:
        c = st.draw(1, 40, "const") / 4.0
        vals = [c] * n
    elif k == 1:
        vals = [st.draw(1, 4000, "v") / 97.0 for _ in range(n)]
    elif k == 2:
        vals = [st.draw(-4000, 4000, "v") / 97.0 for _ in range(n)]
    elif k == 3:
        vals = [float(st.draw(-30, 30, "v")) for _ in range(n)]
    elif k == 4:
        vals = [0.0] * n
    elif k == 5:
        vals = [float(st.draw(-300000, 300000, "v")) for _ in range(n)]          # counts / byte rates: |v| up to 3e5
    else:
        vals = [float(st.draw(-6, 6, "v")) * 1e9 + float(st.draw(0, 999, "w")) for _ in range(n)]   # bit/s: up to 6e9
    form = st.weighted((6, 4, 4, 1, 1, 1), "form")
    if k == 5:
        form = st.pick((3, 2, 5, 0), "int-form")      # int32, int64, list of ints, float64
    if k == 6:
        form = st.pick((2, 5, 0), "int-form")         # int64, list of ints, float64  # float64 array, list, int64, int32, float32, list of ints
    integral = all(float(v).is_integer() for v in vals)
    if form == 1:
        return vals, list(vals), "list"
    if form == 2 and integral:
        return vals, np.array(vals, dtype=np.int64), "int64"
    if form == 3 and integral:
        return vals, np.array(vals, dtype=np.int32), "int32"
    if form == 4:
        v32 = [float(np.float32(v)) for v in vals]           # the signal IS its float32 values
        return v32, np.array(v32, dtype=np.float32), "float32"
    if form == 5 and integral:
        return vals, [int(v) for v in vals], "list-of-int"
    return vals, np.array(vals, dtype=np.float64), "float64"


def gen_snr(st, n, vals):
    spec, exp, text = _gen_snr(st, n, vals)
    if spec["snr"] is not None and st.coin(1, 4, "integer-typed-snr"):
        # decibel values and ratios are often whole numbers kept in integer (even unsigned) arrays; snr / 10 is a true
        # division, so the definition's value is the same - but -snr, snr // 10 or 10 ** snr are not
        flat = np.asarray(spec["snr"], dtype=float).ravel()
        if flat.size and np.all(flat == np.round(flat)) and np.all(np.abs(flat) < 120):
            kinds = ["int64", "int32", "int16"] + (["uint8", "uint16", "uint64"] if np.all(flat >= 0) else [])
            dt = st.pick(kinds, "snr-dtype")
            if isinstance(spec["snr"], list):
                spec["snr"] = [int(v) for v in spec["snr"]] if st.coin(1, 2, "list-of-int") else np.array(spec["snr"]).astype(dt)
            elif isinstance(spec["snr"], np.ndarray):
                spec["snr"] = spec["snr"].astype(dt)
            else:
                spec["snr"] = getattr(np, dt)(int(flat[0]))
            text += f", snr as {dt if not isinstance(spec['snr'], list) else 'list of int'}"
    if "db" in spec and st.coin(1, 5, "flag-as-numpy-bool"):
        # a flag taken from an array, a comparison or a DataFrame cell is numpy.bool_, not the singleton True/False
        spec["db_numpy"] = True
        text += f", snr_in_db=numpy.bool_({spec['db']})"
    if spec["snr"] is not None and st.coin(1, 4, "std-given-as-well"):
        # "the given std when NO snr is given": next to an snr, a std argument must not matter
        spec["std"] = st.pick((0.5, 2.0, 10.0, 0.0, 1.0), "ignored-std")
        text += f", std={spec['std']} given as well"
    return spec, exp, text


def _gen_snr(st, n, vals):
    mode = st.weighted((3, 3, 2, 2, 2), "snr-mode")  # scalar dB, scalar linear, per-sample dB, per-sample linear, std
    a = np.asarray(vals, dtype=float)
    sp = float(np.mean(a ** 2))
    wrap = st.weighted((6, 1, 1), "snr-type")        # plain Python number, NumPy scalar, NumPy 0-d array
    def typed(v):
        return v if wrap == 0 else (np.float64(v) if wrap == 1 else np.array(float(v)))
    if mode == 0:
        snr = st.pick((0, 10, 20, 40, 3, -10, 13.7), "snr")
        return {"snr": typed(snr), "db": True}, np.full(n, (sp / 10 ** (snr / 10)) ** 0.5), f"snr={snr}dB"
    if mode == 1:
        snr = st.pick((1.0, 2.0, 10.0, 100.0, 0.5, 37.5, 4), "snr")
        return {"snr": typed(snr), "db": False}, np.full(n, (sp / snr) ** 0.5), f"snr={snr} linear"
    if mode in (2, 3):
        db = mode == 2
        if db:
            s = [float(st.draw(-5, 50, "snr-i")) for _ in range(n)]
            exp = np.array([(sp / 10 ** (v / 10)) ** 0.5 for v in s])
        else:
            s = [st.draw(1, 400, "snr-i") / 4.0 for _ in range(n)]
            exp = np.array([(sp / v) ** 0.5 for v in s])
        form = st.pick(("list", "array"), "snr-form")
        return {"snr": s if form == "list" else np.array(s), "db": db}, exp, f"per-sample snr ({'dB' if db else 'linear'}, {form})"
    std = st.pick((1.0, 0.1, 2.5, 0.0), "std")
    spec = {"snr": None, "std": std}
    if st.coin(1, 4, "scale-flag-given-as-well"):
        spec["db"] = False               # without an snr the decibel/linear flag must not matter either
    return spec, np.full(n, std), f"std={std}" + (", snr_in_db=False given as well" if "db" in spec else "")


def call_noise(via, signal, spec, x=None):
    process = importlib.import_module("traffic_weaver.process")
    weaver = importlib.import_module("traffic_weaver.weaver")
    kw = {}
    if "db" in spec and (spec["db"] is False or via.endswith("explicit") or spec.get("db_numpy")):
        kw["snr_in_db"] = np.bool_(spec["db"]) if spec.get("db_numpy") else spec["db"]
    if "std" in spec:
        kw["std"] = spec["std"]
    if via.startswith("process"):
        return None, process.noise_gauss(signal, snr=spec["snr"], **kw)
    wv = weaver.Weaver(x, signal)
    wv.noise(spec["snr"], **kw)
    return wv.get()


def long_signal(st, n):
    k = st.draw(0, 2, "long-shape")
    t = np.arange(n, dtype=float)
    a = (5.0 + 3.0 * np.sin(t / 50.0)) if k == 0 else (4.0 * np.sin(t / 37.0) if k == 1 else np.where((t // 100) % 2 == 0, 2.0, -7.0))
    return a.tolist(), a.copy(), "float64"


def gen_snr_long(st, n, vals):
    a = np.asarray(vals, dtype=float)
    sp = float(np.mean(a ** 2))
    mode = st.draw(0, 2, "snr-mode")
    if mode == 0:
        snr = st.pick((10, 20, 0), "snr")
        return {"snr": snr, "db": True}, np.full(n, (sp / 10 ** (snr / 10)) ** 0.5), f"snr={snr}dB"
    if mode == 1:
        s_ = 10.0 + 20.0 * ((np.arange(n) // 1000) % 2)
        return {"snr": s_, "db": True}, (sp / 10 ** (s_ / 10)) ** 0.5, "per-sample snr (dB, array)"
    sd = st.pick((1.0, 0.25), "std")
    return {"snr": None, "std": sd}, np.full(n, sd), f"std={sd}"


def run_seam_case(st, keep_log=False, params_long=False):
    res = R.Result()
    n = st.draw(1, 120, "n") if not st.coin(1, 10, "long") else st.draw(121, 2000, "n")
    if params_long:
        n = st.pick((131073, 200000, 262145, 70001), "long-n")
    vals, signal, form = gen_signal(st, n) if not params_long else long_signal(st, n)
    spec, expected_std, text = gen_snr(st, n, vals) if not params_long else gen_snr_long(st, n, vals)
    via = st.pick(("process", "weaver", "process-explicit", "weaver-explicit"), "via")
    xs = [float(i) * 0.5 - 3 for i in range(n)]
    x_in = np.array(xs) if via.startswith("weaver") and st.coin(1, 2, "x?") else None
    if via.startswith("weaver") and n < 1:
        via = "process"
    seed = st.draw(0, 10 ** 6, "rng-seed")
    case = {"n": n, "signal": brief(vals[:50]), "form": form, "noise": text, "via": via}
    pristine = np.array(vals, dtype=float)
    seam = RngSeam()
    seam.seed(seed)
    seam.install()
    a = np.asarray(vals, dtype=float)
    key = f"mode={text.split('=')[0].split(' (')[0]}"
    try:
        try:
            with warnings.catch_warnings():
                warnings.simplefilter("ignore")
                np.random.seed(seed % (2 ** 32))
                rx, ry = call_noise(via, signal, spec, x_in)
        finally:
            seam.uninstall()
        ry = np.asarray(ry, dtype=float) if isinstance(ry, np.ndarray) else ry
        if not isinstance(ry, np.ndarray) or ry.shape != (n,):
            raise Violation("C15/length-or-type-changed", key, f"noise on {n} samples returned {type(ry).__name__} "
                            f"of shape {getattr(ry, 'shape', None)} ({case})")
        if via.startswith("weaver"):
            want_x = np.arange(n) if x_in is None else np.array(xs)
            if not (isinstance(rx, np.ndarray) and rx.shape == (n,) and np.array_equal(rx, want_x)):
                raise Violation("C15/x-changed", key, f"Weaver.noise changed x: {brief(rx)} ({case})")
        if not np.array_equal(np.asarray(signal, dtype=float), pristine):
            raise Violation("C15/input-modified", key, f"noise modified its input signal ({case})")
        res.stats["seam-reached" if seam.reached else "seam-not-reached"] += 1
        if len(seam.calls) > 1:
            # several draws combined in a way the seam cannot attribute: only the black-box mode judges
            res.stats["seam-multiple-draws-not-judged"] += 1
        if len(seam.calls) == 1:
            c = seam.calls[0]
            z = np.broadcast_to(np.asarray(c["z"], dtype=float), (n,)) if np.shape(c["z"]) in ((n,), ()) else None
            if z is None or (np.shape(c["z"]) == () and n > 1):
                raise Violation("C15/fewer-draws-than-samples", key, f"one Gaussian draw of size {c['size']} was made for "
                                f"{n} samples: the noise terms of different samples cannot be independent ({case})")
            noise_term = ry - a
            want = expected_std * z
            rel = 3e-6 if form == "float32" else 1e-9       # float32 input: power and sum are computed in float32
            tol = rel * max(1.0, float(np.max(np.abs(want))) if n else 1.0, float(np.max(np.abs(a))) if n else 1.0)
            if not np.all(np.abs(noise_term - want) <= tol):
                i = int(np.argmax(np.abs(noise_term - want)))
                loc = np.asarray(c["loc"], dtype=float)
                scale = np.broadcast_to(np.asarray(c["scale"], dtype=float), (n,))
                why = []
                if np.any(loc != 0):
                    why.append(f"non-zero mean {brief(loc, 3)}")
                if not np.allclose(scale, expected_std, rtol=1e-9, atol=1e-12):
                    why.append(f"standard deviation {scale[i]:.12g} at sample {i}, definition gives {expected_std[i]:.12g}")
                if not why:
                    why.append("the result is not signal + Gaussian term")
                raise Violation("C15/noise-term-wrong", key,
                                f"y changed by {noise_term[i]:.12g} at sample {i}, expected std*z = {want[i]:.12g}: "
                                + "; ".join(why) + f" ({case})")
    except Violation as v:
        res.violation = {"cls": v.cls, "key": v.key, "msg": v.msg}
    except Exception as e:
        res.violation = {"cls": "C15/noise-raised", "key": key, "msg": f"noise raised {type(e).__name__}: {e} ({case})"}
    res.choices = list(st.rec)
    res.digest = int.from_bytes(hashlib.sha256(repr((case, vals[:50], seed)).encode()).digest()[:8], "big")
    res.nontrivial = n >= 2 and len(set(vals)) > 1
    res.sample = case
    res.steps = 1
    res.log = [case] if keep_log else None
    return res


def run_history_case(st, keep_log=False):
    """Weaver.noise as a LATER step of a history: the signal whose power counts is the processed series at that moment."""
    res = R.Result()
    weaver = importlib.import_module("traffic_weaver.weaver")
    rfa = importlib.import_module("traffic_weaver.rfa")
    n0 = st.draw(6, 60, "n")
    ys = [st.draw(-4000, 4000, "v") / 97.0 for _ in range(n0)]
    xs = [2.0 + 0.5 * i for i in range(n0)]
    wv = weaver.Weaver(np.array(xs), np.array(ys))
    hist = []
    seam = RngSeam()
    seed = st.draw(0, 10 ** 6, "rng-seed")
    seam.seed(seed)
    key = "mode=history"
    case = {"n0": n0, "history": hist, "via": "weaver-history"}
    try:
        seam.install()
        try:
            with warnings.catch_warnings():
                warnings.simplefilter("ignore")
                np.random.seed(seed % (2 ** 32))
                for _ in range(st.draw(1, 3, "pre-ops")):
                    k = st.draw(0, 8, "pre-op")
                    if k == 0:
                        c = st.pick((2.0, 0.5, -3.0, 10.0), "c"); wv.scale_y(c); hist.append(f"scale_y({c})")
                    elif k == 1:
                        c = st.pick((5.0, -20.0, 100.0), "c"); wv.shift_y(c); hist.append(f"shift_y({c})")
                    elif k == 2:
                        wv.append_one_sample(make_periodic=st.coin(1, 2, "p")); hist.append("append_one_sample")
                    elif k == 3:
                        wv.repeat(2); hist.append("repeat(2)")
                    elif k == 4 and len(wv) > 8:
                        wv.truncate_by_index(2, len(wv) - 2); hist.append("truncate_by_index(2, -2)")
                    elif k == 5 and len(wv) * 4 < 4000:
                        m = st.pick((2, 3, 4), "n")
                        cls = st.pick(("PiecewiseConstantRFA", "LinearFixedRFA", "ExpAdaptiveRFA"), "strategy")
                        wv.recreate_from_average(m, rfa_class=getattr(rfa, cls)); hist.append(f"recreate({m}, {cls})")
                    elif k == 6:
                        m = st.draw(5, 80, "n"); wv.interpolate(n=m); hist.append(f"interpolate(n={m})")
                    elif k == 7:
                        wv.trend(lambda t: 0.3 * t); hist.append("trend(0.3 t)")
                    else:
                        wv.noise(20); hist.append("noise(20)")
                x0, y0 = (np.array(v, dtype=float) for v in wv.get())
                rx0, ry0 = (np.array(v, dtype=float) for v in wv.get_reference())
                n = len(y0)
                spec, expected_std, text = gen_snr(st, n, list(y0))
                hist.append(f"noise({text})")
                kw = {}
                if "db" in spec and spec["db"] is False:
                    kw["snr_in_db"] = False
                if "std" in spec:
                    kw["std"] = spec["std"]
                mark = len(seam.calls)
                wv.noise(spec["snr"], **kw)
        finally:
            seam.uninstall()
        rx, ry = wv.get()
        if not (isinstance(ry, np.ndarray) and ry.shape == (n,)):
            raise Violation("C15/length-or-type-changed", key, f"noise changed the length/type of y ({case})")
        if not (isinstance(rx, np.ndarray) and np.array_equal(np.asarray(rx, dtype=float), x0)):
            raise Violation("C15/x-changed", key, f"Weaver.noise changed x ({case})")
        if len(seam.calls) == mark + 1:
            z = np.asarray(seam.calls[-1]["z"], dtype=float)
            if z.shape != (n,):
                raise Violation("C15/fewer-draws-than-samples", key, f"draw of shape {z.shape} for {n} samples ({case})")
            want = expected_std * z
            got = np.asarray(ry, dtype=float) - y0
            tol = 1e-9 * max(1.0, float(np.max(np.abs(want))), float(np.max(np.abs(y0))))
            if not np.all(np.abs(got - want) <= tol):
                i = int(np.argmax(np.abs(got - want)))
                raise Violation("C15/noise-term-wrong", key,
                                f"after {hist[:-1]} the noise step changed y[{i}] by {got[i]:.9g}, the definition applied to "
                                f"the processed series at that moment gives std*z = {want[i]:.9g} ({case})")
            res.stats["seam-reached"] += 1
        else:
            res.stats["seam-not-reached" if len(seam.calls) == mark else "seam-multiple-draws-not-judged"] += 1
    except Violation as v:
        res.violation = {"cls": v.cls, "key": v.key, "msg": v.msg}
    except Exception as e:
        res.violation = {"cls": "C15/noise-raised", "key": key, "msg": f"history raised {type(e).__name__}: {e} ({case})"}
    res.choices = list(st.rec)
    res.digest = int.from_bytes(hashlib.sha256(repr((hist, ys[:20], seed)).encode()).digest()[:8], "big")
    res.nontrivial = True
    res.sample = dict(case)
    res.steps = len(hist)
    res.log = [case] if keep_log else None
    return res


def run_blackbox_case(st, keep_log=False):
    """Real generator: reproducibility under a fixed seed, and >= 6-sigma statistics on 2*10^5 samples."""
    res = R.Result()
    n = 200000
    seed = st.draw(0, 2 ** 31 - 1, "np-seed")
    shape = st.weighted((2, 2, 2), "shape")
    t = np.arange(n, dtype=float)
    if shape == 0:
        a = 5.0 + 3.0 * np.sin(t / 50.0)
    elif shape == 1:
        a = 4.0 * np.sin(t / 37.0) + 0.001 * t / n
    else:
        a = np.where((t // 100) % 2 == 0, 2.0, -7.0)
    mode = st.weighted((2, 2, 2, 1), "mode")
    sp = float(np.mean(a ** 2))
    if mode == 0:
        snr = st.pick((10, 20, 0, 30), "snr")
        spec, std, text, lin = {"snr": snr, "db": True}, np.full(n, (sp / 10 ** (snr / 10)) ** 0.5), f"snr={snr}dB", 10 ** (snr / 10)
    elif mode == 1:
        snr = st.pick((2.0, 10.0, 50.0), "snr")
        spec, std, text, lin = {"snr": snr, "db": False}, np.full(n, (sp / snr) ** 0.5), f"snr={snr} linear", snr
    elif mode == 2:
        s = 10.0 + 20.0 * ((t // 1000) % 2)
        spec, std, text, lin = {"snr": s, "db": True}, (sp / 10 ** (s / 10)) ** 0.5, "per-sample snr 10/30 dB", None
    else:
        sd = st.pick((1.0, 0.25), "std")
        spec, std, text, lin = {"snr": None, "std": sd}, np.full(n, sd), f"std={sd}", None
    via = st.pick(("process", "weaver"), "via")
    case = {"n": n, "signal": ("offset sine", "sine", "square +2/-7")[shape], "noise": text, "via": via, "numpy_seed": seed}
    key = f"mode={text.split('=')[0].split(' 1')[0]}"
    try:
        with warnings.catch_warnings():
            warnings.simplefilter("ignore")
            np.random.seed(seed)
            _, r1 = call_noise(via, a.copy(), spec)
            np.random.seed(seed)
            _, r2 = call_noise(via, a.copy(), spec)
            np.random.seed(seed + 1)
            _, r3 = call_noise(via, a.copy(), spec)
        if not np.array_equal(r1, r2):
            raise Violation("C15/not-reproducible", key, f"two runs under numpy.random.seed({seed}) differ ({case})")
        if np.array_equal(r1, r3) and float(np.max(std)) > 0:
            raise Violation("C15/seed-ignored", key, f"different seeds give identical noise ({case})")
        z = (r1 - a) / std
        m, var = float(np.mean(z)), float(np.var(z))
        kurt = float(np.mean((z - m) ** 4) / var ** 2 - 3.0) if var > 0 else 0.0
        ac = float(np.mean((z[1:] - m) * (z[:-1] - m)) / var) if var > 0 else 0.0
        lim = 6.0 / np.sqrt(n)
        stats = {"mean": round(m, 5), "var": round(var, 5), "excess_kurtosis": round(kurt, 4), "lag1": round(ac, 5)}
        case["standardised_residual"] = stats
        if abs(m) > lim:
            raise Violation("C15/noise-not-zero-mean", key, f"standardised noise mean {m:.5f} exceeds 6/sqrt(N)={lim:.5f} ({case})")
        if abs(var - 1.0) > 0.03:
            raise Violation("C15/noise-std-wrong", key, f"noise variance is {var:.4f} x the definition's "
                            f"mean(y^2)/SNR (allowed 0.97..1.03) ({case})")
        if abs(kurt) > 0.15:
            raise Violation("C15/noise-not-gaussian", key, f"excess kurtosis {kurt:.3f} (|.| <= 0.15 expected) ({case})")
        if abs(ac) > lim:
            raise Violation("C15/noise-correlated", key, f"lag-1 autocorrelation {ac:.5f} exceeds {lim:.5f} ({case})")
        # whiteness over ALL lags (FFT): for independent draws max |acf| ~ sqrt(2 ln N / N) ~ 0.011 at N = 2e5
        zc = z - m
        f = np.fft.rfft(zc, 2 * n)
        acf = np.fft.irfft(f * np.conj(f))[:n] / (var * n)
        k = int(np.argmax(np.abs(acf[1:]))) + 1
        stats["max_abs_acf"] = [round(float(acf[k]), 4), k]
        if abs(acf[k]) > 0.05:
            raise Violation("C15/noise-correlated", key, f"autocorrelation {acf[k]:.3f} at lag {k}: the noise terms of "
                            f"different samples are not independent draws ({case})")
        # independent draws do not cancel: |sum z| / sqrt(N) is |N(0,1)|, below 1e-7 with probability 8e-8, and the
        # sorted sample is not its own mirror image (antithetic pairs z, -z - shuffled or not - give 1e-16 for both)
        zs = np.sort(z)
        cancel = abs(float(np.sum(z))) / np.sqrt(n)
        mirror = float(np.max(np.abs(zs + zs[::-1])))
        stats["abs_sum_over_sqrtN"], stats["mirror_asymmetry"] = float(f"{cancel:.3g}"), float(f"{mirror:.3g}")
        if float(np.max(std)) > 0 and (cancel < 1e-7 or mirror < 1e-7):
            raise Violation("C15/noise-correlated", key, f"the noise terms cancel exactly (|sum z|/sqrt(N) = {cancel:.2g}, "
                            f"mirror asymmetry of the sorted sample {mirror:.2g}): they are not independent draws ({case})")
        if lin is not None:
            emp = sp / float(np.mean((r1 - a) ** 2))
            case["empirical_snr_over_requested"] = round(emp / lin, 4)
            if abs(emp / lin - 1.0) > 0.03:
                raise Violation("C15/empirical-snr-off", key, f"empirical SNR {emp:.4g} vs requested {lin:.4g} ({case})")
    except Violation as v:
        res.violation = {"cls": v.cls, "key": v.key, "msg": v.msg}
    except Exception as e:
        res.violation = {"cls": "C15/noise-raised", "key": key, "msg": f"noise raised {type(e).__name__}: {e} ({case})"}
    res.choices = list(st.rec)
    res.digest = int.from_bytes(hashlib.sha256(repr(sorted(case.items())).encode()).digest()[:8], "big")
    res.nontrivial = True
    res.stats["blackbox-series"] += 1
    res.sample = case
    res.steps = 1
    res.log = [case] if keep_log else None
    return res


def run_single(params, choices, keep_log=False):
    return _run(params, S.Stream(replay=choices), keep_log)


def _run(params, st, keep_log=False):
    isolate.reset_library_state()
    if params["gen"] == "blackbox":
        return run_blackbox_case(st, keep_log)
    if params["gen"] == "history":
        return run_history_case(st, keep_log)
    return run_seam_case(st, keep_log, params_long=params["gen"] == "seam-long")


def run_unit(params, seed):
    out = R.UnitOutcome()
    out.add(params, _run(params, S.Stream(seed=seed)))
    return out


def plan(tier, verif_seed):
    q = tier == "quick"
    return [{"gen": "blackbox"}] * (32 if q else 400) + [{"gen": "seam-long"}] * (32 if q else 200) + \
        [{"gen": "history"}] * (6000 if q else 60000) + [{"gen": "seam"}] * (24000 if q else 300000)


def describe():
    return {
        "rule": "Seam cases: a signal of 1..2000 samples (constant, positive, sign-changing, integer, zeros; array/list/int64), "
                "an SNR specification (scalar or per-sample, dB or linear, or explicit std) and an entry point "
                "(process.noise_gauss or Weaver.noise) drawn from the choice stream; numpy.random.normal is a recording "
                "stub, and result - signal must equal the definition's std times the stub's z. Black-box cases: the real "
                "generator on 2*10^5 samples under seeded numpy seeds: bitwise reproducibility, mean/variance/kurtosis/"
                "lag-1 bounds at >= 6 sigma, empirical SNR within 3%. Non-trivial = non-constant signal of >= 2 samples "
                "(seam) or any black-box series; distinct = distinct SHA-256 of the case.",
        "assumptions": ["if the implementation does not draw through numpy.random.normal/standard_normal/randn the seam is "
                        "reported as not reached and only the black-box statistics judge",
                        "statistical thresholds are >= 6 sigma and the outcome is a deterministic function of the seeds"],
        "components": {"real": ["process.noise_gauss", "Weaver.noise", "NumPy legacy global RNG (black-box mode)"],
                       "stub": ["numpy.random.normal/standard_normal/randn (seam mode only)"]},
        "extra": {},
    }
