from simkit import runner as _R
from . import cache_sim as _cache
from . import registry_sim as _registry
from . import weaver_sim as _weaver
from . import noise_sim as _noise

_R.register("cache", _cache)
_R.register("registry", _registry)
_R.register("noise", _noise)
for _p, _e in _weaver.ENGINES.items():
    _R.register("weaver-" + _p.lower(), _e)
ENGINE_OF = {"C19": "cache", "C18": "registry", "C08": "weaver-c08", "C09": "weaver-c09", "C20": "weaver-c20", "C15": "noise"}
