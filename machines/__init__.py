from simkit import runner as _R
from . import cache_sim as _cache
from . import registry_sim as _registry

_R.register("cache", _cache)
_R.register("registry", _registry)
ENGINE_OF = {"C19": "cache", "C18": "registry"}
