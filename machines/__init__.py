from simkit import runner as _R
from . import cache_sim as _cache

_R.register("cache", _cache)
ENGINE_OF = {"C19": "cache"}
