"""C08 / C09 / C20: seeded search over operation histories of one Weaver object, checked step by step
against models/weaver_model.py.  No scheduler and no clock are involved (the object is single-threaded);
what is taken from the simulation kernel is the single choice stream, the RNG seam for `noise`, injected
rejected requests as the one fault kind, shrinking and exact replay of the failing history.
"""
import copy
import hashlib
import importlib
import math
import warnings

import numpy as np

from models.weaver_model import WeaverModel, Series, truncate_indices, ambiguous_bounds, DOMAIN_OPS, RESHAPING_OPS
from simkit import isolate
from simkit import runner as R
from simkit import stream as S

LEVEL = "exploration"
MAX_LEN = 6000
SPLINE_MAX = 1200
STRATEGIES = ("PiecewiseConstantRFA", "CubicSplineRFA", "LinearFixedRFA", "LinearAdaptiveRFA", "ExpFixedRFA",
              "ExpAdaptiveRFA")
ADAPTIVE = ("LinearAdaptiveRFA", "ExpAdaptiveRFA")
METHODS = ("linear", "constant", "cubic", "spline")
TRENDS = {
    # what the function returns belongs to the caller's side as much as what it is given: "identity" hands its very
    # argument back, "branch" is valid for the documented per-sample (scalar) call only
    "identity": lambda a, b: (lambda x: x),
    "branch": lambda a, b: (lambda x: a if x > b else 0.0),
    "zero": lambda a, b: (lambda x: 0.0 * x),
    "const": lambda a, b: (lambda x: a + 0.0 * x),
    "linear": lambda a, b: (lambda x: a * x + b),
    "quadratic": lambda a, b: (lambda x: a * x * x / 100.0 + b),
    "sine": lambda a, b: (lambda x: a * math.sin(b * x)),
}


class Violation(Exception):
    def __init__(self, cls, key, msg):
        super().__init__(msg)
        self.cls, self.key, self.msg = cls, key, msg


class Abort(Exception):
    """History cannot be continued soundly (e.g. a valid operation raised in a mode that does not judge it)."""


# ----------------------------------------------------------------------------- RNG seam
class RngSeam:
    """Replaces numpy.random.normal (and standard_normal/randn) while a history runs: records (loc, scale, size)
    and returns loc + scale*z with z from a generator seeded by the choice stream.  `replay` makes secondary
    objects (twin / fresh) receive exactly the same draws."""

    def __init__(self):
        self.calls = []
        self.mode = "record"
        self.cursor = 0
        self.rs = np.random.RandomState(0)
        self.real = {}
        self.reached = 0

    def seed(self, k):
        self.rs = np.random.RandomState(k)

    def normal(self, loc=0.0, scale=1.0, size=None):
        self.reached += 1
        if self.mode == "replay" and self.cursor < len(self.calls):
            z = self.calls[self.cursor]["z"]
            self.cursor += 1
        else:
            z = self.rs.standard_normal(size)
            self.calls.append({"loc": loc, "scale": scale, "size": size, "z": z})
            self.cursor = len(self.calls)
        return loc + scale * z

    def standard_normal(self, size=None):
        return self.normal(0.0, 1.0, size)

    def randn(self, *shape):
        return self.normal(0.0, 1.0, shape or None)

    def install(self):
        for name in ("normal", "standard_normal", "randn"):
            self.real[name] = getattr(np.random, name)
            setattr(np.random, name, getattr(self, name))

    def uninstall(self):
        for name, f in self.real.items():
            setattr(np.random, name, f)


# ----------------------------------------------------------------------------- helpers
def arr(v):
    return np.asarray(v)


def exact(a, b):
    a, b = arr(a), arr(b)
    return a.shape == b.shape and a.dtype != object and b.dtype != object and bool(np.array_equal(a, b, equal_nan=True))


def close(a, b, rtol=1e-9, mag=0.0):
    """`mag`: the largest magnitude the values passed through on the way (x shifted to 19 and back to 0 keeps the
    rounding it got at 19)."""
    try:
        a, b = np.asarray(a, dtype=float), np.asarray(b, dtype=float)
    except (TypeError, ValueError):
        return False
    if a.shape != b.shape:
        return False
    if not b.size:
        return True
    if not (np.all(np.isfinite(a)) and np.all(np.isfinite(b))):
        return False
    # tolerance relative to the SPREAD of the values (not their offset: a series at 1.7e9 with 60 s spacing must be
    # compared to a fraction of 60 s), with a floor of a few hundred ulp of the largest magnitude for the rounding
    # that x + shift / x * scale legitimately incur there
    spread = float(np.max(b) - np.min(b))
    mag = max(float(np.max(np.abs(b))), float(mag))
    atol = max(rtol * spread, 512 * np.finfo(float).eps * mag, 1e-300)
    return bool(np.all(np.abs(a - b) <= atol + rtol * 0.0))


def brief(v, n=6):
    try:
        a = np.asarray(v, dtype=float).ravel()
        s = ", ".join(f"{t:.6g}" for t in a[:n])
        return f"[{s}{', ...' if a.size > n else ''}] (len {a.size})"
    except Exception:
        return f"{type(v).__name__}"


def snapshot(wv):
    out = []
    for getter in ("get", "get_reference", "get_original"):
        x, y = getattr(wv, getter)()
        out.append((copy.deepcopy(x), copy.deepcopy(y)))
    return out


def same_snapshot(s1, s2):
    for (x1, y1), (x2, y2) in zip(s1, s2):
        if type(x1) is not type(x2) or type(y1) is not type(y2):
            return False
        if not (_exact_any(x1, x2) and _exact_any(y1, y2)):
            return False
    return True


def _exact_any(a, b):
    if a is None or b is None:
        return a is None and b is None
    try:
        # "exactly as they were" includes the dtype: int64 silently turned into float64 compares equal value by value,
        # yet it is another series (lossy above 2^53, and later integer-preserving operations behave differently)
        if isinstance(a, np.ndarray) and isinstance(b, np.ndarray) and a.dtype != b.dtype:
            return False
        return exact(a, b)
    except Exception:
        return False


def _fitpack_gave_up(w):
    msg = str(getattr(w, "message", ""))
    return issubclass(getattr(w, "category", Warning), RuntimeWarning) and (
        "maximal number of iterations" in msg or "Probable cause" in msg or "s too small" in msg
        or "theoretically impossible" in msg or "required storage space exceeds" in msg)


def fmt_op(op, a):
    def f(v):
        if isinstance(v, float):
            return f"{v:g}"
        if isinstance(v, (list, tuple, np.ndarray)):
            return brief(v, 4)
        return str(v)
    return f"{op}(" + ", ".join(f"{k}={f(v)}" for k, v in a.items()) + ")"


# ----------------------------------------------------------------------------- the machine
class Machine:
    def __init__(self, st, mode, keep_log=False):
        self.st = st
        self.mode = mode          # "C08" | "C09" | "C20"
        self.history = []         # human-readable steps
        self.kinds = []
        self.stats = {}
        self.rng = RngSeam()
        self.caller = []          # (array object, pristine copy, what)
        self.secondary = []       # [(label, Weaver)] objects that must stay identical to the primary
        self.weaver_mod = importlib.import_module("traffic_weaver.weaver")
        self.rfa_mod = importlib.import_module("traffic_weaver.rfa")
        self.Weaver = self.weaver_mod.Weaver
        self.abstract_states = set()

    def count(self, k, n=1):
        self.stats[k] = self.stats.get(k, 0) + n

    def fail(self, cls, key, msg):
        hist = " -> ".join(self.history[-12:])
        raise Violation(f"{self.mode}/{cls}", key, f"{msg}; history: {hist}")

    # ------------------------------------------------------------ initial series
    def num(self, label, big=False):
        st = self.st
        k = st.weighted((4, 3, 2), label + "-kind")
        if k == 0:
            return float(st.draw(-20, 20, label))
        if k == 1:
            return st.draw(-80, 80, label) / 4.0
        return st.draw(-2000, 2000, label) / 97.0

    def build_initial(self):
        st = self.st
        n = st.draw(4, 40, "n")
        # magnitude regime: mostly moderate; sometimes Unix-timestamp abscissae, nanosecond spacing, or a large y level
        self.regime = ("moderate", "timestamp", "nano", "level")[st.weighted((10, 1, 1, 1), "regime")]
        xk = st.weighted((3, 2, 3, 2), "x-pattern")     # uniform int, uniform fractional, lattice, generic
        start = st.draw(-30, 30, "x0")
        if xk == 0:
            step = st.draw(1, 3, "xstep")
            xs = [start + i * step for i in range(n)]
        elif xk == 1:
            step = st.pick((0.25, 0.5, 1.5), "xstep")
            xs = [start + i * step for i in range(n)]
        elif xk == 2:
            xs, cur = [], float(start)
            for i in range(n):
                xs.append(cur)
                cur += st.pick((0.25, 0.5, 1.0, 1.5, 2.0, 3.0), "dx")
        else:
            xs, cur = [], start + st.draw(0, 96) / 97.0
            for i in range(n):
                xs.append(cur)
                cur += st.draw(1, 400, "dx") / 97.0
        yk = st.weighted((3, 2, 2), "y-pattern")
        ys = []
        for i in range(n):
            if i and st.coin(1, 6, "tie"):
                ys.append(ys[-1])
            elif yk == 0:
                ys.append(float(st.draw(-50, 50, "y")))
            elif yk == 1:
                ys.append(st.draw(-100, 100, "y") / 2.0)
            else:
                ys.append(st.draw(-5000, 5000, "y") / 97.0)
        if all(v == ys[0] for v in ys) and not st.coin(1, 8, "keep-constant"):
            ys[-1] = ys[0] + 1.0
        if self.regime == "timestamp":
            dx = st.pick((60.0, 1.0, 3600.0, 0.5), "ts-step")
            xs = [1.7e9 + (v - xs[0]) * dx for v in xs]
        elif self.regime == "nano":
            dx = st.pick((1e-9, 2.5e-10, 1e-7), "nano-step")
            xs = [0.25 + (v - xs[0]) * dx for v in xs]
        elif self.regime == "level":
            ys = [1e6 + v / 16.0 for v in ys]
        x_form = st.weighted((2, 2, 2, 3), "x-form")     # None, list, int array, float array
        if self.regime in ("timestamp", "nano") and x_form == 0:
            x_form = 3
        integral_x = all(float(v).is_integer() for v in xs)
        y_form = st.weighted((2, 2, 3), "y-form")        # list, int array (if integral), float array
        ctor = st.weighted((5, 2, 1, 1), "ctor")         # Weaver, from_2d_array, from_dataframe, from_csv
        if x_form == 0:
            xs = list(range(n))
        model = WeaverModel(xs, ys)
        desc = {"n": n, "regime": self.regime, "x": xs if n <= 12 else xs[:12] + ["..."],
                "y": ys if n <= 12 else ys[:12] + ["..."]}
        if ctor == 1:
            xy = np.column_stack((np.array(xs, dtype=float), np.array(ys, dtype=float)))
            self.remember(xy, "xy passed to from_2d_array")
            wv = self.Weaver.from_2d_array(xy)
            desc["ctor"] = "from_2d_array"
        elif ctor == 3:
            import os
            path = os.path.join(R.scratch_root(), f"series-{os.getpid()}.csv")
            with open(path, "w") as fh:
                fh.write("".join(f"{float(a)!r},{float(b)!r}\n" for a, b in zip(xs, ys)))
            try:
                wv = self.Weaver.from_csv(path)
            finally:
                os.remove(path)
            desc["ctor"] = "from_csv"
        elif ctor == 2:
            import pandas as pd
            df = pd.DataFrame({"t": np.array(xs, dtype=float), "v": np.array(ys, dtype=float)})
            wv = self.Weaver.from_dataframe(df, x_col="t", y_col="v")
            desc["ctor"] = "from_dataframe"
        else:
            if x_form == 0:
                xa = None
            elif x_form == 1:
                xa = list(xs)
            elif x_form == 2 and integral_x:
                xa = np.array(xs, dtype=np.int64)
            else:
                xa = np.array(xs, dtype=np.float64)
            if y_form == 0:
                ya = list(ys)
            elif y_form == 1 and all(float(v).is_integer() for v in ys):
                ya = np.array(ys, dtype=np.int64)
            else:
                ya = np.array(ys, dtype=np.float64)
            for obj, what in ((xa, "x passed to Weaver()"), (ya, "y passed to Weaver()")):
                if obj is not None:
                    self.remember(obj, what)
            wv = self.Weaver(xa, ya)
            desc["ctor"] = f"Weaver(x={type(xa).__name__}{'/' + str(xa.dtype) if isinstance(xa, np.ndarray) else ''}, " \
                           f"y={type(ya).__name__}{'/' + str(ya.dtype) if isinstance(ya, np.ndarray) else ''})"
        self.wv, self.model, self.initial = wv, model, desc
        self.history.append(desc["ctor"] + f"[n={n}]")

    def remember(self, obj, what):
        self.caller.append((obj, copy.deepcopy(obj), what))

    # ------------------------------------------------------------ observable state
    def cur(self):
        x, y = self.wv.get()
        return np.asarray(x, dtype=float), np.asarray(y, dtype=float)

    def ref(self):
        x, y = self.wv.get_reference()
        return np.asarray(x, dtype=float), np.asarray(y, dtype=float)

    # ------------------------------------------------------------ representability
    @staticmethod
    def resolvable(magnitude, spacing, margin=1e4):
        """Can a grid with this smallest spacing live at this magnitude in float64 with room to spare?  An operation
        whose exact result would need spacing below ~1e4 ulp of the magnitude is outside what any implementation can
        do (x + 6 cannot keep 1e-17 spacing); such operations are not issued."""
        return spacing > margin * np.finfo(float).eps * max(abs(magnitude), 1e-300)

    def x_ok_after(self, op, a):
        x, _ = self.cur()
        rx, _ = self.ref()
        for arr in (x, rx):
            if len(arr) < 2:
                continue
            sp = float(np.min(np.diff(arr)))
            mag = float(np.max(np.abs(arr)))
            span = float(arr[-1] - arr[0])
            if op == "shift_x":
                ok = self.resolvable(mag + abs(a["shift"]), sp)
            elif op == "scale_x":
                ok = self.resolvable(mag * abs(a["scale"]), sp * abs(a["scale"])) and mag * abs(a["scale"]) < 1e15
            elif op == "normalize_x":
                ok = self.resolvable(max(abs(a["lo"]), abs(a["hi"])), sp / span * (a["hi"] - a["lo"]))
            elif op == "repeat":
                ok = self.resolvable(mag + a["n"] * (span + sp), sp)
            elif op == "recreate_from_average":
                ok = self.resolvable(mag, sp / a["n"])
            elif op == "interpolate":
                if "n" in a:
                    ok = self.resolvable(mag, span / max(1, a["n"] - 1))
                else:
                    g = np.asarray(a["new_x"], dtype=float)
                    ok = len(g) < 2 or self.resolvable(mag, float(np.min(np.diff(g))))
            elif op == "append_one_sample":
                ok = self.resolvable(mag + span, sp)
            else:
                ok = True
            if not ok:
                self.count("skipped-unrepresentable-spacing")
                return False
        return True

    def y_ok_after(self, op, a):
        _, y = self.cur()
        mag = float(np.max(np.abs(y))) if len(y) else 0.0
        if op == "shift_y":
            return mag + abs(a["shift"]) < 1e12
        if op == "scale_y":
            return mag * abs(a["scale"]) < 1e12
        return True

    # ------------------------------------------------------------ operation generators
    def gen_domain(self, allow_index_truncate=True):
        for _ in range(8):
            g = self._gen_domain(allow_index_truncate)
            if self.x_ok_after(*g) and self.y_ok_after(*g):
                return g
        return "shift_y", {"shift": 1.0}

    def _gen_domain(self, allow_index_truncate=True):
        st = self.st
        x, y = self.cur()
        rx, ry = self.ref()
        n = len(x)
        kinds = list(DOMAIN_OPS)
        for _ in range(6):
            op = st.pick(kinds, "domain-op")
            if op == "append_one_sample":
                if n + 1 > MAX_LEN:
                    continue
                return op, {"periodic": st.coin(1, 2, "periodic")}
            big = self.regime != "moderate" and st.coin(1, 4, "extreme-arg")
            if op in ("shift_x", "shift_y"):
                sh = st.pick((1.7e9, -1.7e9, 1e6, 86400.0), "big-shift") if big else self.num("shift")
                return op, {"shift": sh, "form_num": st.weighted((3, 2, 1, 1), "num-form")}
            if op == "scale_x":
                sc = st.pick((1e-9, 60.0, 1e3, 1e-3, 1e9), "big-scale") if big else \
                    st.pick((2.0, 0.5, 4.0, 0.25, 1.5, 3.0, 0.75, 1.7, 0.3), "scale")
                return op, {"scale": sc, "form_num": st.weighted((3, 2, 1, 1), "num-form")}
            if op == "scale_y":
                return op, {"scale": st.pick((2.0, 0.5, -1.0, 4.0, 0.25, -2.0, 1.5, -0.3, 1.7), "scale"),
                            "form_num": st.weighted((3, 2, 1, 1), "num-form")}
            if op == "normalize_x":
                lo = self.num("lo")
                return op, {"lo": lo, "hi": lo + st.pick((1.0, 0.5, 2.0, 10.0, 100.0, 7.3), "width"),
                            "form_num": st.weighted((3, 2, 1, 1), "num-form")}
            if op == "normalize_y":
                if not (np.max(y) > np.min(y) and np.max(ry) > np.min(ry)):
                    continue
                lo = self.num("lo")
                return op, {"lo": lo, "hi": lo + st.pick((1.0, 0.5, 2.0, 10.0, 100.0, 7.3), "width")}
            if op == "repeat":
                r = st.draw(1, 4, "repeats")
                if n * r > MAX_LEN or len(rx) < 2:
                    continue
                return op, {"n": r}
            if op == "truncate_by_value":
                if n < 5:
                    continue
                i = st.draw(0, n - 4, "i")
                j = st.draw(i + 3, n - 1, "j")
                lk = st.weighted((3, 3, 1, 2), "left-kind")     # on sample, between samples, outside, ratio
                rk = st.weighted((3, 3, 1, 2), "right-kind")
                span = x[-1] - x[0]
                if lk == 0:
                    left, lr = float(x[i]), False
                elif lk == 1:
                    left, lr = float(x[i] + (x[i + 1] - x[i]) * st.pick((0.5, 0.25, 0.75))), False
                elif lk == 2:
                    left, lr = float(x[0] - 1.0 - st.draw(0, 5)), False
                else:
                    left, lr = float(((x[i] + x[i + 1]) / 2 - x[0]) / span), True
                if rk == 0:
                    right, rr = float(x[j]), False
                elif rk == 1:
                    right, rr = float(x[j] - (x[j] - x[j - 1]) * st.pick((0.5, 0.25, 0.75))), False
                elif rk == 2:
                    right, rr = float(x[-1] + 1.0 + st.draw(0, 5)), False
                else:
                    right, rr = float(((x[j] + x[j - 1]) / 2 - x[0]) / span), True
                a = {"left": left, "right": right, "left_ratio": lr, "right_ratio": rr}
                wi = truncate_indices(x, left, right, lr, rr)
                ri = truncate_indices(rx, left, right, lr, rr)
                if wi is None or ri is None or wi[1] - wi[0] + 1 < 4 or ri[1] - ri[0] + 1 < 2:
                    continue
                if ambiguous_bounds(x, left, right, lr, rr) or ambiguous_bounds(rx, left, right, lr, rr):
                    self.count("skipped-ambiguous-ratio-bound")
                    continue
                return op, a
            if op == "truncate_by_index":
                if not allow_index_truncate or n < 5 or len(rx) != n:
                    continue
                start = st.draw(0, n - 4, "start")
                stop = st.draw(start + 4, n, "stop")
                return op, {"start": start, "stop": None if (stop == n and st.coin(1, 2)) else stop}
        return "shift_y", {"shift": 1.0}

    def match_ready(self):
        """integral_match's documented precondition: every reference abscissa is a sample of x and consecutive
        reference points have at least one interior sample between them."""
        x, _ = self.cur()
        rx, ry = self.ref()
        if len(rx) < 2 or len(x) < 3 or not np.all(np.diff(rx) > 0) or not np.all(np.diff(x) > 0):
            return False
        idx = np.searchsorted(x, rx)
        if np.any(idx >= len(x)) or np.any(x[np.minimum(idx, len(x) - 1)] != rx):
            return False
        return bool(np.all(np.diff(idx) >= 2))

    def gen_recreate(self):
        g = self._gen_recreate()
        if g is not None and not self.x_ok_after(*g):
            return None
        return g

    def _gen_recreate(self):
        st = self.st
        x, _ = self.cur()
        n = st.draw(2, 8, "oversample")
        if st.coin(1, 8, "large-n"):
            # any n >= 2 is admissible: grids built from a float step go wrong for particular n only (49, 98, 103, ...)
            n = st.draw(9, 300, "oversample-large")
            if (len(x) - 1) * n + 1 > MAX_LEN:
                n = max(2, (MAX_LEN - 1) // max(1, len(x) - 1))
        if (len(x) - 1) * n + 1 > MAX_LEN or len(x) < 2:
            return None
        s = st.pick(STRATEGIES, "strategy")
        if getattr(self, "regime", "moderate") != "moderate" and s == "CubicSplineRFA" and st.coin(1, 2, "avoid-cubic"):
            s = "LinearFixedRFA"
        if getattr(self, "regime", "moderate") == "nano":
            n = st.pick((n, 50, 20), "n-nano")
            if (len(x) - 1) * n + 1 > MAX_LEN:
                return None
        a = {"n": n, "strategy": s}
        if s in ("LinearFixedRFA", "LinearAdaptiveRFA", "ExpFixedRFA", "ExpAdaptiveRFA") and st.coin(2, 3, "params"):
            if st.coin(1, 3, "explicit-a"):
                a["a"] = st.draw(0, n, "a")
            else:
                a["alpha"] = st.pick((1.0, 0.5, 0.25, 0.8, 0.1), "alpha")
            if s in ("ExpFixedRFA", "ExpAdaptiveRFA"):
                a["beta"] = st.pick((0.5, 0.0, 1.0, 0.25), "beta")
                a["exp"] = st.pick((2.0, 1.0, 0.5, 3.0), "exp")
            if s in ADAPTIVE:
                a["adaptive_smooth"] = st.pick((1.0, 0.5, 2.0), "adaptive-smooth")
        return "recreate_from_average", a

    def gen_match(self):
        st = self.st
        if not self.match_ready():
            return None
        a = {"target": st.pick(("trapezoid", "rectangle"), "target"), "reference": st.pick(("rectangle", "trapezoid"), "reference")}
        if st.coin(1, 3, "alpha?"):
            a["alpha"] = st.pick((1.0, 0.5, 2.0, 3.0), "alpha")
        fp = st.weighted((4, 1, 1, 1, 1), "fixed-points")
        rx, _ = self.ref()
        x, _ = self.cur()
        if fp == 1:
            a["strategy"] = "lower"
        elif fp == 2:
            a["strategy"] = "higher"
        elif fp == 3:
            a["fixed_points_in_x"] = [float(v) for v in rx]
        elif fp == 4:
            a["fixed_points_indices_in_x"] = [int(i) for i in np.searchsorted(x, rx)]
        return "integral_match", a

    def gen_interpolate(self):
        st = self.st
        x, _ = self.cur()
        if len(x) < 4:
            return None
        m = st.pick(METHODS, "method")
        if getattr(self, "regime", "moderate") != "moderate" or (len(x) > SPLINE_MAX and m == "spline"):
            m = st.pick(("linear", "constant"), "method-extreme")
        rx, _ = self.ref()
        special = st.weighted((8, 1, 1), "grid-special")     # ordinary, as many points as the reference, the reference grid
        if special == 1 and len(rx) >= 2:
            return "interpolate", {"n": int(len(rx)), "method": m}
        if special == 2 and len(rx) >= 2 and rx[0] == x[0] and rx[-1] == x[-1]:
            return "interpolate", {"new_x": [float(v) for v in rx], "form": st.pick(("list", "tuple", "array"), "grid-form"),
                                   "method": m}
        if st.coin(1, 2, "by-n"):
            n = st.draw(2, min(3 * len(x), 400), "n")
            if n < 4 and True:
                n = max(n, 2)
            return "interpolate", {"n": n, "method": m}
        k = st.draw(0, min(2 * len(x), 200), "inner")
        lo, hi = float(x[0]), float(x[-1])
        inner = sorted({lo + (hi - lo) * st.draw(1, 999, "t") / 1000.0 for _ in range(k)})
        grid = [lo] + [v for v in inner if lo < v < hi] + [hi]
        form = st.weighted((2, 1, 3), "grid-form")
        return "interpolate", {"new_x": grid, "form": ("list", "tuple", "array")[form], "method": m}

    def gen_reshape(self, allow_match=True):
        for _ in range(4):
            g = self._gen_reshape(allow_match)
            if g is None or self.x_ok_after(*g):
                return g
        return None

    def _gen_reshape(self, allow_match=True):
        st = self.st
        extreme = getattr(self, "regime", "moderate") != "moderate"
        for _ in range(5):
            k = st.weighted((4, 3, 3, 2, 2, 2), "reshape-op")
            if extreme and k == 3:
                k = 0          # smoothing splines are ill-conditioned at 1e9 offsets / 1e-9 spacing: not judged there
            if k == 0:
                g = self.gen_recreate()
            elif k == 1:
                g = self.gen_match() if allow_match else None
            elif k == 2:
                g = self.gen_interpolate()
            elif k == 3:
                x, _ = self.cur()
                # FITPACK's smoothing spline needs tens of seconds on several thousand points: a bound on the generator
                g = ("smooth", {"s": st.pick((0.0, 0.01, 0.5, 1.0, 10.0, 100.0), "s")}) if 5 <= len(x) <= SPLINE_MAX else None
            elif k == 4:
                g = ("trend", {"f": st.pick(sorted(TRENDS), "trend"), "a": self.num("ta"), "b": self.num("tb"),
                               "normalized": st.coin(1, 3, "normalized")})
            else:
                mode = st.weighted((3, 2, 2, 1), "noise-mode")
                x, _ = self.cur()
                if mode == 0:
                    g = ("noise", {"snr": float("inf") if st.coin(1, 12, "snr-inf") else float(st.draw(0, 60, "snr-db")),
                                   "db": True})
                elif mode == 1:
                    g = ("noise", {"snr": st.pick((1.0, 2.0, 10.0, 100.0, 0.5), "snr-lin"), "db": False})
                elif mode == 2:
                    g = ("noise", {"snr": [float(10 + (i * 7) % 30) for i in range(len(x))], "db": st.coin(1, 2, "db"),
                                   "form": st.pick(("list", "array"), "snr-form")})
                else:
                    g = ("noise", {"snr": None, "std": st.pick((1.0, 0.1, 2.5, 0.0), "std")})
                g[1]["seed"] = st.draw(0, 10 ** 6, "rng-seed")
            if g is not None:
                return g
        return None

    # ------------------------------------------------------------ applying operations
    @staticmethod
    def as_form(v, form):
        """The same number as a Python float (0), a Python int when integral (1), or a NumPy scalar (2, 3)."""
        if form == 1 and float(v).is_integer():
            return int(v)
        if form == 2:
            return np.float64(v)
        if form == 3 and float(v).is_integer():
            return np.int64(v)
        return v

    def build_call(self, op, a, primary=True):
        """Returns (callable(wv), caller_arrays) for operation (op, a)."""
        W = self
        form = a.get("form_num", 0)
        if op in ("shift_x", "shift_y"):
            return lambda wv: getattr(wv, op)(self.as_form(a["shift"], form))
        if op in ("scale_x", "scale_y"):
            return lambda wv: getattr(wv, op)(self.as_form(a["scale"], form))
        if op in ("normalize_x", "normalize_y"):
            return lambda wv: getattr(wv, op)(self.as_form(a["lo"], form), self.as_form(a["hi"], form))
        if op == "append_one_sample":
            return lambda wv: wv.append_one_sample(make_periodic=a["periodic"])
        if op == "repeat":
            return lambda wv: wv.repeat(a["n"])
        if op == "truncate_by_value":
            return lambda wv: wv.truncate_by_value(a["left"], a["right"], x_left_as_ratio=a["left_ratio"],
                                                   x_right_as_ratio=a["right_ratio"])
        if op == "truncate_by_index":
            return lambda wv: wv.truncate_by_index(a["start"], a["stop"])
        if op == "restore_original":
            return lambda wv: wv.restore_original()
        if op == "recreate_from_average":
            cls = getattr(self.rfa_mod, a["strategy"])
            kw = {k: v for k, v in a.items() if k not in ("n", "strategy")}
            return lambda wv: wv.recreate_from_average(a["n"], rfa_class=cls, **kw)
        if op == "integral_match":
            kw = {}
            if "alpha" in a:
                kw["alpha"] = a["alpha"]
            if "strategy" in a:
                kw["fixed_points_finding_strategy"] = a["strategy"]
            for k in ("fixed_points_in_x", "fixed_points_indices_in_x"):
                if k in a:
                    obj = list(a[k])
                    if primary:
                        self.remember(obj, f"{k} passed to integral_match")
                    kw[k] = obj
            return lambda wv: wv.integral_match(target_function_integral_method=a["target"],
                                                reference_function_integral_method=a["reference"], **kw)
        if op == "interpolate":
            if "n" in a:
                return lambda wv: wv.interpolate(n=a["n"], method=a["method"])
            g = a["new_x"]
            obj = list(g) if a["form"] == "list" else (tuple(g) if a["form"] == "tuple" else np.array(g, dtype=float))
            if primary:
                self.remember(obj, "new_x passed to interpolate")
            return lambda wv: wv.interpolate(new_x=obj, method=a["method"])
        if op == "smooth":
            return lambda wv: wv.smooth(a["s"])
        if op == "trend":
            f = TRENDS[a["f"]](a["a"], a["b"])
            return lambda wv: wv.trend(f, normalized=a["normalized"])
        if op == "noise":
            snr = a["snr"]
            if isinstance(snr, list):
                snr = list(snr) if a.get("form") == "list" else np.array(snr, dtype=float)
                if primary:
                    self.remember(snr, "snr passed to noise")
            kw = {}
            if "db" in a:
                kw["snr_in_db"] = a["db"]
            if "std" in a:
                kw["std"] = a["std"]
            return lambda wv: wv.noise(snr, **kw)
        raise KeyError(op)

    def apply(self, op, a):
        """Apply a valid operation to the primary object and to every secondary object; run the oracles."""
        self.history.append(fmt_op(op, {k: v for k, v in a.items() if k != "seed"}))
        self.kinds.append(op)
        before_ref = snapshot(self.wv)[1]
        cuts = (None, None)
        if op == "truncate_by_value":
            cuts = (truncate_indices(self.cur()[0], a["left"], a["right"], a["left_ratio"], a["right_ratio"]),
                    truncate_indices(self.ref()[0], a["left"], a["right"], a["left_ratio"], a["right_ratio"]))
        call = self.build_call(op, a, primary=True)
        if op == "noise":
            self.rng.seed(a["seed"])
            self.rng.mode = "record"
            np.random.seed(a["seed"] % (2 ** 32))
        mark = len(self.rng.calls)
        try:
            with warnings.catch_warnings(record=True) as caught:
                warnings.simplefilter("always")
                ret = call(self.wv)
        except Exception as e:
            self.on_valid_raised(op, a, e)
            return
        if any(_fitpack_gave_up(w) for w in caught):
            # FITPACK reported that it did not converge ("s too small", iteration limit): as for the smoothing
            # property itself, such a run is discarded, not judged - the spline it returns may be anything
            self.count("discarded-fitpack-non-convergence")
            raise Abort("FITPACK non-convergence")
        # model
        if op in DOMAIN_OPS:
            self.model.domain(op, a, *cuts)
        elif op == "restore_original":
            self.model.restore()
        else:
            self.model.reshape()
        # secondaries
        for label, other in list(self.secondary):
            c2 = self.build_call(op, a, primary=False)
            if op == "noise":
                if self.rng.reached == 0 or len(self.rng.calls) == mark:
                    np.random.seed(a["seed"] % (2 ** 32))
                self.rng.mode = "replay"
                self.rng.cursor = mark
            try:
                with warnings.catch_warnings():
                    warnings.simplefilter("ignore")
                    c2(other)
            except Exception as e:
                self.fail(f"{'W4' if label == 'fresh' else 'V3'}/{label}-diverged", f"op={op}",
                          f"{op} succeeded on the object but raised {type(e).__name__}: {e} on its {label} counterpart")
            finally:
                self.rng.mode = "record"
            if not same_snapshot(snapshot(self.wv), snapshot(other)):
                s1, s2 = snapshot(self.wv), snapshot(other)
                names = ("get()", "get_reference()", "get_original()")
                diff = next((names[i] for i in range(3) if not same_snapshot([s1[i]], [s2[i]])), "?")
                i = names.index(diff) if diff in names else 0
                if label == "fresh":
                    self.fail("W4/restored-differs-from-fresh", "restore_original",
                              f"after restore_original, {op} gives {diff} = ({brief(s1[i][0])}, {brief(s1[i][1])}) but a "
                              f"newly constructed Weaver on get_original() gives ({brief(s2[i][0])}, {brief(s2[i][1])})")
                self.fail("V3/rejected-request-left-a-trace", self.last_invalid,
                          f"after the rejected request, {op} gives {diff} = ({brief(s1[i][0])}, {brief(s1[i][1])}) but the "
                          f"twin that never saw the request gives ({brief(s2[i][0])}, {brief(s2[i][1])})")
        self.oracles(op, a, before_ref)

    def on_valid_raised(self, op, a, e):
        key = f"op={op}" + (f":{a['strategy']}" if "strategy" in a and op == "recreate_from_average" else "")
        msg = f"valid operation {fmt_op(op, {k: v for k, v in a.items() if k != 'seed'})} raised {type(e).__name__}: {e}"
        if self.mode == "C09":
            self.fail("valid-operation-raised", key, msg)
        if self.mode == "C08" and (op in DOMAIN_OPS or op in ("recreate_from_average", "integral_match")):
            self.fail("pipeline-raised", key, msg)
        self.count("aborted-valid-op-raised")
        raise Abort(msg)

    # ------------------------------------------------------------ oracles
    def oracles(self, op, a, before_ref):
        wx, wy = self.wv.get()
        rx, ry = self.wv.get_reference()
        ox, oy = self.wv.get_original()
        m = self.model
        key = f"op={op}" + (f":{a['strategy']}" if op == "recreate_from_average" else "") + \
            (f":{a['method']}" if op == "interpolate" else "")
        if self.mode == "C08":
            if op in RESHAPING_OPS:
                if not (_exact_any(before_ref[0], rx) and _exact_any(before_ref[1], ry)):
                    self.fail("R3/reshaping-altered-reference", key,
                              f"{op} changed the reference series: x {brief(before_ref[0])} -> {brief(rx)}, "
                              f"y {brief(before_ref[1])} -> {brief(ry)}")
            if not (close(rx, m.ref.x) and close(ry, m.ref.y)):
                self.fail("R2/reference-does-not-track", key,
                          f"after {op} the reference is ({brief(rx)}, {brief(ry)}), expected the original with the domain "
                          f"operations applied: ({brief(m.ref.x)}, {brief(m.ref.y)})")
            if not m.reshaped:
                if not (close(wx, rx, 1e-12) and close(wy, ry, 1e-12)):
                    self.fail("R1/working-and-reference-differ", key,
                              f"no reshaping yet, but after {op} get() = ({brief(wx)}, {brief(wy)}) while "
                              f"get_reference() = ({brief(rx)}, {brief(ry)})")
                if not (close(wx, m.work.x) and close(wy, m.work.y)):
                    self.fail("R1/working-not-transformed-original", key,
                              f"after {op} get() = ({brief(wx)}, {brief(wy)}), expected ({brief(m.work.x)}, {brief(m.work.y)})")
        if self.mode == "C09":
            for name, v in (("x", wx), ("y", wy)):
                if not isinstance(v, np.ndarray):
                    self.fail("W1/not-an-ndarray", key, f"after {op} the processed {name} is a {type(v).__name__}, not a numpy.ndarray")
                if v.ndim != 1:
                    self.fail("W1/not-one-dimensional", key, f"after {op} the processed {name} has shape {v.shape}")
                if v.dtype == object or not np.issubdtype(v.dtype, np.number):
                    self.fail("W1/not-numeric", key, f"after {op} the processed {name} has dtype {v.dtype}")
            if len(wx) != len(wy):
                self.fail("W1/length-mismatch", key, f"after {op} len(x)={len(wx)} but len(y)={len(wy)}")
            if not (np.all(np.isfinite(wx)) and np.all(np.isfinite(wy))):
                self.fail("W1/non-finite", key, f"after {op} the processed series contains non-finite values: "
                          f"x {brief(wx)}, y {brief(wy)}")
            if len(wx) > 1 and not np.all(np.diff(wx) > 0):
                self.fail("W1/x-not-strictly-increasing", key, f"after {op} x is not strictly increasing: {brief(wx, 10)}")
            for obj, pristine, what in self.caller:
                if not _exact_any(obj, pristine) or type(obj) is not type(pristine):
                    self.fail("W2/caller-array-modified", key, f"{op} modified the caller's own {what}: "
                              f"{brief(pristine)} became {brief(obj)}")
            if not (close(ox, m.orig.x) and close(oy, m.orig.y)):
                self.fail("W3/original-changed", key, f"after {op} get_original() = ({brief(ox)}, {brief(oy)}), expected "
                          f"({brief(m.orig.x)}, {brief(m.orig.y)})")
        # abstract state for coverage
        self.abstract_states.add((m.reshaped, len(wx) // 16 if hasattr(wx, "__len__") else -1,
                                  round(len(wx) / max(1, len(rx)), 1) if hasattr(wx, "__len__") else -1))

    # ------------------------------------------------------------ tails for C08
    def integral(self, x, y, rule):
        d = np.diff(x)
        return (y[:-1] + y[1:]) / 2 * d if rule == "trapezoid" else y[:-1] * d

    def tail_r4(self):
        """recreate + match after a domain-only history reproduces the transformed averages (core of C02)."""
        st = self.st
        g = self.gen_recreate()
        if g is None:
            return
        rx, ry = (v.copy() for v in self.ref())
        if len(rx) < 2:
            return
        self.apply(*g)
        n = g[1]["n"]
        target = st.pick(("trapezoid", "rectangle"), "target")
        m = ("integral_match", {"target": target, "reference": "rectangle"})
        if st.coin(1, 3, "alpha?"):
            m[1]["alpha"] = st.pick((1.0, 0.5, 2.0), "alpha")
        if not self.match_ready():
            self.fail("R4/recreated-grid-misses-reference", f"op=recreate_from_average:{g[1]['strategy']}",
                      "after recreate_from_average the reference abscissae are no longer samples of x")
        self.apply(*m)
        x, y = self.cur()
        got = self.integral(x, y, target)
        key = f"op=integral_match:{g[1]['strategy']}:{target}"
        # conditioning: abscissae of magnitude M with spacing d carry a relative error eps*M/d in every width and in the
        # stretch weights, which are computed from differences of x (at 1.7e9 with 0.03 spacing that is 1e-5)
        cond = float(np.finfo(float).eps * np.max(np.abs(x)) / np.min(np.diff(x)))
        for i in range(len(rx) - 1):
            want = ry[i] * (rx[i + 1] - rx[i])
            have = got[i * n:(i + 1) * n].sum()
            scale = max(abs(want), float(np.max(np.abs(ry))) * abs(rx[i + 1] - rx[i]), 1e-300)
            if not abs(have - want) <= (1e-8 + 64 * cond) * scale:
                self.fail("R4/averages-not-reproduced", key,
                          f"after the domain history, recreate({g[1]['strategy']}, n={n}) + integral_match({target}) gives "
                          f"integral {have:.12g} over reference interval {i} [{rx[i]:g}, {rx[i + 1]:g}], expected "
                          f"average*width = {want:.12g}")
        self.count("tail-R4-checked")

    def run_r5(self):
        """Shifting / scaling commutes with the recreate + match pipeline."""
        st = self.st
        g = self.gen_recreate()
        if g is None:
            return
        s = g[1]["strategy"]
        adaptive = s in ADAPTIVE
        if adaptive:
            # exactly representable maps on integer-valued data only (window sizes are discontinuous in the data)
            x, y = self.cur()
            if not (np.all(x == np.round(x * 4) / 4) and np.all(y == np.round(y * 2) / 2)):
                self.count("R5-skipped-adaptive-non-lattice")
                return
        ops = []
        for _ in range(st.draw(1, 4, "n-maps")):
            k = st.pick(("shift_x", "shift_y", "scale_x", "scale_y"), "map")
            # adaptive strategies: integer shifts and power-of-two scales keep lattice data exact at ANY magnitude, so the
            # window choice (a discontinuous function of ratios of differences) must be the same in both orders - also a
            # million away from the origin, or at 1e-9 of the unit (where an absolute or relative tolerance would bite)
            far = adaptive and st.coin(1, 3, "far-map")
            if k.startswith("shift"):
                if far:
                    ops.append((k, {"shift": st.pick((1048576.0, -3145728.0, 16777216.0, -1048576.0), "far-shift")}))
                else:
                    ops.append((k, {"shift": float(st.draw(-16, 16, "shift")) if adaptive else self.num("shift")}))
            elif k == "scale_x":
                if far:
                    ops.append((k, {"scale": st.pick((2.0 ** -20, 2.0 ** 20, 2.0 ** -30), "far-scale")}))
                else:
                    ops.append((k, {"scale": st.pick((2.0, 0.5, 4.0) if adaptive else (2.0, 0.5, 1.7, 0.3, 3.0), "scale")}))
            else:
                if far:
                    ops.append((k, {"scale": st.pick((2.0 ** -30, -2.0 ** 20, 2.0 ** -20, 2.0 ** 30), "far-scale")}))
                else:
                    ops.append((k, {"scale": st.pick((2.0, -1.0, 0.5, -4.0) if adaptive else (2.0, -1.0, 0.3, 1.7, -2.5), "scale")}))
        target = st.pick(("trapezoid", "rectangle"), "target")
        m = ("integral_match", {"target": target, "reference": "rectangle"})
        # in the other order the maps act on the n-times finer grid: it must be representable wherever they take it
        x0, _ = self.cur()
        reach = float(np.max(np.abs(x0))) * max([1.0] + [abs(o[1]["scale"]) for o in ops if o[0] == "scale_x"]) + \
            sum(abs(o[1]["shift"]) for o in ops if o[0] == "shift_x")
        shrink_ = min([1.0] + [abs(o[1]["scale"]) for o in ops if o[0] == "scale_x"])
        if len(x0) > 1 and not self.resolvable(reach, float(np.min(np.diff(x0))) * shrink_ / g[1]["n"]):
            self.count("R5-skipped-unrepresentable")
            return
        other = copy.deepcopy(self.wv)
        # A: maps first, then pipeline (on the primary, with the step oracles)
        def conditioning(xs):
            xs = np.asarray(xs, dtype=float)
            return float(np.finfo(float).eps * np.max(np.abs(xs)) / np.min(np.diff(xs))) if len(xs) > 1 else 0.0

        magx = magy = 0.0

        def track(wv):
            nonlocal magx, magy
            tx, ty = wv.get()
            magx = max(magx, float(np.max(np.abs(np.asarray(tx, dtype=float)))))
            magy = max(magy, float(np.max(np.abs(np.asarray(ty, dtype=float)))))

        track(self.wv)
        for o in ops:
            if not (self.x_ok_after(*o) and self.y_ok_after(*o)):
                self.count("R5-skipped-unrepresentable")
                return
            self.apply(*o)
            track(self.wv)
        self.apply(*g)
        cond = conditioning(self.cur()[0])          # where the pipeline of order A was computed
        self.apply(*m)
        track(self.wv)
        # B: pipeline first, then maps
        self.history.append("|| other order:")
        try:
            with warnings.catch_warnings():
                warnings.simplefilter("ignore")
                self.build_call(*g, primary=False)(other)
                cond = max(cond, conditioning(other.get()[0]))      # ... and of order B (before the maps move it)
                self.build_call(*m, primary=False)(other)
                track(other)
                for o in ops:
                    self.build_call(*o, primary=False)(other)
                    track(other)
        except Exception as e:
            self.fail("pipeline-raised", f"op=recreate_from_average:{s}", f"recreate+match then maps raised {type(e).__name__}: {e}")
        ax, ay = self.cur()
        bx, by = (np.asarray(v, dtype=float) for v in other.get())
        cond = max([cond] + [conditioning(v) for v in (ax, bx)])
        if not (close(ax, bx, 1e-7, magx) and close(ay, by, 1e-7 + 64 * cond, magy)):
            bad = int(np.argmax(np.abs(ay - by))) if ay.shape == by.shape else -1
            self.fail("R5/maps-do-not-commute-with-pipeline", f"op=recreate_from_average:{s}",
                      f"{[fmt_op(*o) for o in ops]} before recreate({s})+match({target}) gives y {brief(ay)}, after it gives "
                      f"{brief(by)} (largest difference at sample {bad})")
        self.count("tail-R5-checked")

    # ------------------------------------------------------------ C20: rejected requests
    def gen_invalid(self):
        st = self.st
        x, y = self.cur()
        n = len(x)
        W = self.Weaver
        classes = ["ctor-mismatched-lengths", "ctor-not-Nx2", "recreate-n-below-2", "interpolate-unknown-method",
                   "interpolate-grid-endpoints", "interpolate-neither", "truncate-inverted-range", "truncate-index-bounds",
                   "slice-index-bounds", "slice-value-not-a-sample", "unknown-dataset"]
        if n < 3:
            # one or two samples left: only the requests whose refusal does not depend on there being intervals
            classes = ["ctor-mismatched-lengths", "ctor-not-Nx2", "recreate-n-below-2", "truncate-index-bounds",
                       "slice-index-bounds", "unknown-dataset", "recreate-n-below-2"]
        elif not self.match_ready():
            # an unknown name is wrong in ANY state - also where matching itself would not be admissible (say, after an
            # interpolation that left the grid an ulp off the reference points): refused, and nothing touched
            classes += ["match-unknown-target-rule", "match-unknown-reference-rule", "match-unknown-strategy"]
        else:
            classes += ["match-unknown-target-rule", "match-unknown-reference-rule", "match-unknown-strategy",
                        "match-fixed-points-not-samples", "match-fixed-points-too-many"] * 2
        rx, _ = self.ref()
        if len(rx) != n or not np.array_equal(rx, x):
            classes += ["truncate-mixed-bounds-reference"] * 3
        c = st.pick(classes, "invalid-class")
        d = {"class": c}
        if c == "ctor-mismatched-lengths":
            k = st.draw(1, 3) * (1 if st.coin(1, 2, "longer") else -1)
            m = max(1, n + k)
            if m == n:
                m = n + 1
            xf, yf = st.pick(("array", "list"), "x-form"), st.pick(("array", "list"), "y-form")
            xa = np.arange(m, dtype=float) if xf == "array" else [float(i) for i in range(m)]
            ya = np.asarray(y, dtype=float) if yf == "array" else [float(v) for v in y]
            d["call"] = lambda wv: W(xa, ya)
            d["text"] = f"Weaver(x {xf} of length {m}, y {yf} of length {n})"
        elif c == "ctor-not-Nx2":
            # shapes tied to the current length and small fixed ones (a 2-vector is not a (1, 2) array)
            shape = st.pick(((n, 3), (n,), (n, 2, 1), (2, n + 1), (n, 1), (2,), (1,), (3,), (4,), (), (1, 3), (2, 3),
                             (1, 2, 1), (2, 2, 2), (1, 1, 2), (3, 1), (2, 1)), "shape")
            if len(shape) == 2 and shape[1] == 2:
                shape = (shape[0], 3)                   # (2, n + 1) is a perfectly valid array when one sample is left
            d["call"] = lambda wv: W.from_2d_array(np.zeros(shape))
            d["text"] = f"Weaver.from_2d_array(array of shape {shape})"
        elif c == "recreate-n-below-2":
            s = st.pick(STRATEGIES, "strategy")
            k = st.pick((1, 0, -1, 1.5, -3), "n")
            cls = getattr(self.rfa_mod, s)
            kw = {}
            if s in ("LinearFixedRFA", "LinearAdaptiveRFA", "ExpFixedRFA", "ExpAdaptiveRFA") and st.coin(1, 2, "with-params"):
                kw = st.pick(({"alpha": 0.5}, {"a": 2}, {"alpha": 1.0, "a": None}), "params")
                if s.startswith("Exp") and st.coin(1, 2, "beta"):
                    kw = dict(kw, beta=0.3, exp=1.5)
            k = st.pick((k, np.float64(k), np.int64(k) if float(k).is_integer() else k), "n-type")
            d["call"] = lambda wv: wv.recreate_from_average(k, rfa_class=cls, **kw)
            d["text"] = f"recreate_from_average({k!r}, rfa_class={s}{''.join(', %s=%r' % kv for kv in kw.items())})"
        elif c == "interpolate-unknown-method":
            mth = st.pick(("quadratic", "nearest", "", "Linear", "cubic "), "method")
            if st.coin(1, 2):
                d["call"] = lambda wv: wv.interpolate(n=max(2, n), method=mth)
                d["text"] = f"interpolate(n={max(2, n)}, method={mth!r})"
            else:
                g = np.linspace(x[0], x[-1], n + 3)
                d["call"] = lambda wv: wv.interpolate(new_x=g, method=mth)
                d["text"] = f"interpolate(new_x=linspace, method={mth!r})"
        elif c == "interpolate-grid-endpoints":
            which = st.draw(0, 5, "which-end")
            g = np.linspace(x[0], x[-1], n + 2)
            # a move that the magnitude of x absorbs (x ~ 1e14, +0.001) would leave a perfectly valid grid
            if which in (0, 2):
                g0 = g[0]
                g[0] = g0 + st.pick((-1.0, 0.001, (g[1] - g0) / 2))
                if g[0] == g0:
                    g[0] = g0 + (g[1] - g0) / 2
            if which in (1, 2):
                g1 = g[-1]
                g[-1] = g1 + st.pick((1.0, -0.001, -(g1 - g[-2]) / 2))
                if g[-1] == g1:
                    g[-1] = g1 - (g1 - g[-2]) / 2
            if which == 3:
                g = g[::-1].copy()                               # covers the range, but starts at the wrong end
            if which == 4:
                g = np.append(g, (g[0] + g[-1]) / 2)            # last element is an interior point
            if which == 5:
                g = np.insert(g, 0, (g[0] + g[-1]) / 2)         # first element is an interior point
            mth = st.pick(METHODS, "method")
            form = st.pick(("array", "list", "tuple"), "grid-form")
            obj = g if form == "array" else (list(g) if form == "list" else tuple(g))
            # "n: ignored if new_x specified": a valid n next to the bad grid must not rescue the request
            n_too = st.draw(2, 60, "n-as-well") if st.coin(1, 3, "n-given-as-well") else None
            if n_too is None:
                d["call"] = lambda wv: wv.interpolate(new_x=obj, method=mth)
            else:
                d["call"] = lambda wv: wv.interpolate(n=n_too, new_x=obj, method=mth)
            what = ("first end point moved", "last end point moved", "both end points moved", "descending grid",
                    "interior point appended after the last", "interior point inserted before the first")[which]
            d["text"] = f"interpolate({'n=%d, ' % n_too if n_too else ''}new_x ({form}): {what}, {mth!r})"
        elif c == "interpolate-neither":
            d["call"] = lambda wv: wv.interpolate()
            d["text"] = "interpolate() without n and new_x"
        elif c == "truncate-inverted-range":
            k = st.draw(0, 3, "variant")
            i = st.draw(0, n - 1, "i")
            if k == 0:
                args = (float(x[i]), float(x[i]), False, False)
            elif k == 1:
                args = (float(x[min(i + 1, n - 1)]) + 0.5, float(x[i]), False, False)
            elif k == 2:
                args = (0.75, 0.25, True, True)
            else:
                args = (0.5, 0.5, True, True)
            d["call"] = lambda wv: wv.truncate_by_value(args[0], args[1], x_left_as_ratio=args[2], x_right_as_ratio=args[3])
            d["text"] = f"truncate_by_value{args}"
        elif c == "truncate-mixed-bounds-reference":
            # valid for the working series, empty for the reference (their spans differ): must be refused as a whole
            span, rspan = x[-1] - x[0], rx[-1] - rx[0]
            found = None
            for t in (0.9, 0.8, 0.7, 0.6, 0.5, 0.3, 0.1):
                wl, rl = t * span + x[0], t * rspan + rx[0]
                lo, hi = min(wl, rl), max(wl, rl)
                if hi - lo > 1e-9 * max(1.0, abs(hi)):
                    right = (lo + hi) / 2.0
                    wi = truncate_indices(x, t, right, True, False)
                    ri = truncate_indices(rx, t, right, True, False)
                    if (wi is None) != (ri is None):
                        found = (t, float(right))
                        break
            if found is None:
                return self.gen_invalid()
            d["call"] = lambda wv: wv.truncate_by_value(found[0], found[1], x_left_as_ratio=True)
            d["text"] = f"truncate_by_value({found[0]}, {found[1]:g}, x_left_as_ratio=True) - an empty range for one of the two series"
        elif c in ("truncate-index-bounds", "slice-index-bounds"):
            meth = "truncate_by_index" if c.startswith("truncate") else "slice_by_index"
            k = st.draw(0, 5, "bounds-variant")
            if k == 4:
                args = (n + st.draw(1, 5), None)                 # starts beyond the end
            elif k == 5:
                args = (n + st.draw(1, 5), n)
            elif k == 0:
                args = (-st.draw(1, 3), None)
            elif k == 1:
                args = (-st.draw(1, 3), st.draw(1, n))
            elif k == 2:
                args = (0, n + st.draw(1, 5))
            else:
                args = (st.draw(1, max(1, n - 1)), n + st.draw(1, 5))
            d["call"] = lambda wv: getattr(wv, meth)(*args)
            d["text"] = f"{meth}{args}"
        elif c == "slice-value-not-a-sample":
            i = st.draw(0, n - 2, "i")
            bogus = float((x[i] + x[i + 1]) / 2)
            k = st.draw(0, 4, "which")
            beyond = float(x[-1]) + max(1.0, float(x[-1] - x[-2]))          # never absorbed by the magnitude of x
            # a value that WAS a sample in an earlier state of this very object (before a truncation, a shift, ...) and
            # is none now: what a lookup table that outlives the series would still find
            cur = set(float(v) for v in x)
            gone = sorted(v for v in getattr(self, "past_x", ()) if v not in cur)
            if k >= 3:
                k -= 3
                if gone:
                    bogus = gone[st.draw(0, len(gone) - 1, "former-sample")]
            args = (bogus, None) if k == 0 else ((None, bogus) if k == 1 else (beyond, None))
            if st.coin(1, 3, "with-step"):
                args = args + (st.draw(1, 3, "step"),)
            d["call"] = lambda wv: wv.slice_by_value(*args)
            d["text"] = f"slice_by_value{args}"
        elif c == "unknown-dataset":
            name = st.pick(("no-such-dataset", "sandvine_", "mix-it", "ams_ix_daily_", ""), "name")
            ds = importlib.import_module("traffic_weaver.datasets")
            d["call"] = lambda wv: ds.load_dataset(name)
            d["text"] = f"load_dataset({name!r})"
        elif c in ("match-unknown-target-rule", "match-unknown-reference-rule", "match-unknown-strategy"):
            # surrounding VALID arguments vary: none, an exponent, the other rule, explicit fixed points (values or indices)
            kw = {}
            extra = st.draw(0, 6, "surrounding")
            if extra in (2, 3, 5, 6) and not self.match_ready():
                extra = 0                                  # explicit fixed points are only known to be valid when match-ready
            if extra == 5:
                # a single fixed point (a sample): no interval is left to integrate over, the rule names still count
                kw["fixed_points_in_x"] = [float(rx[st.draw(0, len(rx) - 1, "single-fixed-point")])]
            elif extra == 6:
                kw["fixed_points_indices_in_x"] = [int(np.searchsorted(x, rx[st.draw(0, len(rx) - 1, "single-fixed-point")]))]
            if extra == 1:
                kw["alpha"] = st.pick((0.5, 2.0), "alpha")
            elif extra == 2:
                kw["fixed_points_in_x"] = [float(v) for v in rx]
            elif extra == 3:
                kw["fixed_points_indices_in_x"] = [int(i) for i in np.searchsorted(x, rx)]
            elif extra == 4:
                kw["target_function_integral_method" if c != "match-unknown-target-rule" else
                   "reference_function_integral_method"] = st.pick(("trapezoid", "rectangle"), "other-rule")
            if c == "match-unknown-target-rule":
                kw["target_function_integral_method"] = st.pick(("simpson", "rect", "", "Trapezoid"), "rule")
            elif c == "match-unknown-reference-rule":
                kw["reference_function_integral_method"] = st.pick(("simpson", "rectangular", "", "Rectangle"), "rule")
            else:
                kw["fixed_points_finding_strategy"] = st.pick(("nearest", "floor", "", "Closest"), "strategy")
            d["call"] = lambda wv: wv.integral_match(**kw)
            d["text"] = "integral_match(" + ", ".join(f"{k}={(v if not isinstance(v, list) else '<valid, %d>' % len(v))!r}"
                                                      for k, v in kw.items()) + ")"
        elif c == "match-fixed-points-not-samples" and st.coin(1, 4, "by-index"):
            idx = [int(i) for i in np.searchsorted(x, rx)]
            if st.coin(1, 3, "before-the-beginning"):
                bad = -n - 1 - st.draw(0, 50, "beyond")                                # counts back past the first sample
            else:
                bad = n + st.draw(0, 50, "beyond")                                     # designates no sample at all
            idx[st.draw(0, len(idx) - 1, "which")] = bad
            idx = sorted(idx)
            d["call"] = lambda wv: wv.integral_match(fixed_points_indices_in_x=idx)
            d["text"] = f"integral_match(fixed_points_indices_in_x containing {bad}, outside -{n}..{n - 1} for len(x) = {n})"
        elif c == "match-fixed-points-not-samples":
            pts = [float(v) for v in rx]
            i = st.draw(0, len(pts) - 1, "which")
            j = int(np.searchsorted(x, pts[i]))
            nb = x[j + 1] if j + 1 < n else x[j - 1]
            how = st.draw(0, 3, "how-far")
            if how == 0:
                pts[i] = float((x[j] + nb) / 2)                       # mid-way between two samples
            else:
                ulps = (1, 4, 64)[how - 1] * (1 if st.coin(1, 2, "above") else -1)
                v = float(x[j])
                for _ in range(abs(ulps)):                             # a few ulp away from a sample: still not a sample
                    v = float(np.nextafter(v, np.inf if ulps > 0 else -np.inf))
                pts[i] = v
            if pts[i] in set(float(v) for v in x):
                pts[i] = float((x[j] + nb) / 2)
            pts = sorted(pts)
            d["call"] = lambda wv: wv.integral_match(fixed_points_in_x=pts)
            bogus = [p_ for p_ in pts if p_ not in set(float(v) for v in x)]
            d["text"] = f"integral_match(fixed_points_in_x with {bogus[0]!r} which is not a sample of x)"
        elif c == "match-fixed-points-too-many":
            # the other way of designating fixed points may be given as well, validly: the surplus must still be refused
            both = st.coin(1, 3, "other-designation-too")
            ok_idx = [int(i) for i in np.searchsorted(x, rx)]
            ok_pts = [float(v) for v in rx]
            if st.coin(1, 2, "indices"):
                idx = list(range(n)) + [n - 1] * st.draw(1, 3)
                kw = {"fixed_points_indices_in_x": idx}
                if both:
                    kw["fixed_points_in_x"] = ok_pts
                d["text"] = f"integral_match(fixed_points_indices_in_x of length {len(idx)} > {n}" + \
                    (", plus valid fixed_points_in_x)" if both else ")")
            else:
                pts = [float(v) for v in x] + [float(x[-1])] * st.draw(1, 3)
                kw = {"fixed_points_in_x": pts}
                if both:
                    kw["fixed_points_indices_in_x"] = ok_idx
                d["text"] = f"integral_match(fixed_points_in_x of length {len(pts)} > {n}" + \
                    (", plus valid fixed_points_indices_in_x)" if both else ")")
            d["call"] = lambda wv: wv.integral_match(**kw)
        return d

    def inject_invalid(self):
        d = self.gen_invalid()
        c = d["class"]
        key = f"class={c}"
        self.history.append("REJECT? " + d["text"])
        self.count("invalid:" + c)
        twin = copy.deepcopy(self.wv)
        before = snapshot(self.wv)
        err_state = np.geterr()
        raised = None
        try:
            with warnings.catch_warnings():
                warnings.simplefilter("ignore")
                d["call"](self.wv)
        except ValueError as e:
            raised = e
        except Exception as e:
            self.fail("V1/not-ValueError", key, f"{d['text']} raised {type(e).__name__}: {e}, expected ValueError")
        if raised is None:
            self.fail("V1/accepted", key, f"{d['text']} was accepted instead of raising ValueError")
        if np.geterr() != err_state:
            # outside the statement (the three series are what must be untouched): reported in the evidence only
            self.count("probe:rejected-request-changed-numpy-error-state")
            np.seterr(**err_state)
        after = snapshot(self.wv)
        if not same_snapshot(before, after):
            names = ("working", "reference", "original")
            i = next(i for i in range(3) if not same_snapshot([before[i]], [after[i]]))
            self.fail("V2/state-changed-by-rejected-request", key,
                      f"{d['text']} raised ValueError but changed the {names[i]} series from ({brief(before[i][0])}, "
                      f"{brief(before[i][1])}) to ({brief(after[i][0])}, {brief(after[i][1])})"
                      f"; dtypes {[str(getattr(v, 'dtype', type(v).__name__)) for v in before[i]]} -> "
                      f"{[str(getattr(v, 'dtype', type(v).__name__)) for v in after[i]]}")
        self.secondary = [s for s in self.secondary if s[0] != "twin"] + [("twin", twin)]
        self.last_invalid = key


# ----------------------------------------------------------------------------- known-finding probes (C08)
# The adaptive strategies choose their transition windows with int() of gamma*a/(1+gamma), gamma = ratio of neighbouring
# steps of the averages.  On a ramp gamma is 1 in exact arithmetic and a/2 sits exactly on the truncation boundary, so the
# last-ulp rounding of the differences - which a shift or a scale changes - decides between a window of 5 and of 4
# samples: "transform, then pipeline" and "pipeline, then transform" then differ by about 1 % of max|y|.  That is a
# genuine violation of the commutation clause on ordinary input (the default strategy, three- and four-point ramps); a
# repair would have to change how windows are chosen, so it is recorded (known_findings.json) rather than made.  The
# seeded R5 search keeps to exactly representable maps on lattice data for these two strategies, where no rounding
# exists to flip a tie; these fixed probes run the listed inputs so that each run states whether the finding persists.
KNOWN_PROBES = {}
for _y, _op, _arg in (([0.1, 0.2, 0.3], "shift_y", 1), ([0.1, 0.2, 0.3], "scale_y", 3), ([10, 12, 14, 16], "scale_y", 0.1)):
    for _s in ADAPTIVE:
        KNOWN_PROBES[f"{_s}:y={_y}:{_op}({_arg})"] = (_y, _op, _arg, _s)


def run_known_probe(params, st, keep_log=False):
    res = R.Result()
    isolate.reset_library_state()
    name = params["name"]
    y, op, arg, strategy = KNOWN_PROBES[name]
    W = importlib.import_module("traffic_weaver").Weaver
    cls = getattr(importlib.import_module("traffic_weaver.rfa"), strategy)
    with warnings.catch_warnings():
        warnings.simplefilter("ignore")
        a = W(None, list(y))
        getattr(a, op)(arg)
        a.recreate_from_average(10, rfa_class=cls).integral_match()
        b = W(None, list(y))
        b.recreate_from_average(10, rfa_class=cls).integral_match()
        getattr(b, op)(arg)
    ay, by = np.asarray(a.get()[1], dtype=float), np.asarray(b.get()[1], dtype=float)
    rel = float(np.max(np.abs(ay - by)) / np.max(np.abs(by))) if ay.shape == by.shape else float("inf")
    history = [f"Weaver(None, {y})", f"{op}({arg})", f"recreate_from_average(10, {strategy})", "integral_match()",
               f"|| other order: relative difference {rel:.3g}"]
    if rel > 1e-9:
        res.violation = {"cls": "C08/R5/adaptive-window-tie", "key": f"probe={name}",
                         "msg": f"{op}({arg}) before vs after recreate({strategy}, n=10)+match on y={y}: the two orders differ by "
                                f"{rel:.3g} of max|y| (a window tie decided by rounding)"}
    res.choices = list(st.rec)
    res.digest = int.from_bytes(hashlib.sha256(repr((name, round(rel, 12))).encode()).digest()[:8], "big")
    res.nontrivial = True
    res.steps = 4
    res.stats["known-finding-probes"] += 1
    res.sample = {"initial": {"y": y}, "history": history}
    res.log = history if keep_log else None
    return res


# ----------------------------------------------------------------------------- running one history
def run_history(mode, params, st, keep_log=False):
    if params.get("gen") == "known-probe":
        return run_known_probe(params, st, keep_log)
    res = R.Result()
    isolate.reset_library_state()
    M = Machine(st, mode, keep_log)
    M.last_invalid = "class=?"
    M.rng.install()
    try:
        try:
            with warnings.catch_warnings():
                warnings.simplefilter("ignore")
                M.build_initial()
                if mode == "C08":
                    _run_c08(M, params)
                elif mode == "C09":
                    _run_c09(M, params)
                else:
                    _run_c20(M, params)
        except Violation as v:
            res.violation = {"cls": v.cls, "key": v.key, "msg": v.msg}
        except Abort:
            pass
    finally:
        M.rng.uninstall()
    res.choices = list(st.rec)
    h = hashlib.sha256(repr((M.initial, M.history, res.violation["cls"] if res.violation else None)).encode()).digest()
    res.digest = int.from_bytes(h[:8], "big")
    res.nontrivial = len(M.kinds) >= 2 and len(set(M.kinds)) >= 2
    res.steps = len(M.kinds)
    res.stats.update(M.stats)
    for k in M.kinds:
        res.stats["op:" + k] += 1
    res.stats["histories"] += 1
    res.stats["rng-seam-calls"] += M.rng.reached
    res.marks = {"trigram:" + str(i): tuple(M.kinds[i:i + 3]) for i in range(max(0, len(M.kinds) - 2))}
    for i, s_ in enumerate(sorted(M.abstract_states)):
        res.marks[f"abstract:{i}"] = s_
    res.sample = {"initial": M.initial, "history": M.history}
    res.log = M.history if keep_log else None
    return res


def _run_c08(M, params):
    st = M.st
    if params.get("gen") == "exhaustive":
        return _run_c08_sequence(M, params["sequence"])
    variant = st.weighted((5, 3, 3), "variant")
    if variant == 0:
        for _ in range(st.draw(0, 8, "length")):
            M.apply(*M.gen_domain())
        M.tail_r4()
    elif variant == 1:
        for _ in range(st.draw(1, 8, "length")):
            if st.coin(1, 3, "reshape?"):
                g = M.gen_reshape()
                if g is not None:
                    M.apply(*g)
                    continue
            M.apply(*M.gen_domain(allow_index_truncate=not M.model.reshaped))
        if not M.model.reshaped:
            M.tail_r4()
    else:
        M.run_r5()


ALPHABET = [
    ("append_one_sample", {"periodic": False}), ("append_one_sample", {"periodic": True}),
    ("shift_x", {"shift": 2.0}), ("shift_x", {"shift": -0.75}), ("shift_x", {"shift": 1000.0}),
    ("shift_y", {"shift": 3.0}), ("shift_y", {"shift": -1.5}),
    ("scale_x", {"scale": 2.0}), ("scale_x", {"scale": 0.5}), ("scale_x", {"scale": 1.7}),
    ("scale_y", {"scale": 2.0}), ("scale_y", {"scale": -1.0}), ("scale_y", {"scale": 0.3}),
    ("normalize_x", {"lo": 0.0, "hi": 1.0}), ("normalize_x", {"lo": -5.0, "hi": 20.0}),
    ("normalize_y", {"lo": 0.0, "hi": 1.0}), ("normalize_y", {"lo": 10.0, "hi": 11.0}),
    ("repeat", {"n": 2}), ("repeat", {"n": 3}),
    ("truncate_by_value", {"left": 0.137, "right": 0.861, "left_ratio": True, "right_ratio": True}),
    ("truncate_by_value", {"left": 0.333, "right": 0.771, "left_ratio": True, "right_ratio": True}),
    ("truncate_by_value", {"left": -1e9, "right": 0.519, "left_ratio": False, "right_ratio": True}),
    ("truncate_by_value", {"left": 0.253, "right": 1e9, "left_ratio": True, "right_ratio": False}),
    ("truncate_by_index", {"start": 1, "stop": None}), ("truncate_by_index", {"start": 0, "stop": -1}),
    ("truncate_by_index", {"start": 2, "stop": -2}),
]


def _run_c08_sequence(M, seq):
    for i in seq:
        op, a = ALPHABET[i]
        a = dict(a)
        x, y = M.cur()
        n = len(x)
        if op == "truncate_by_index":
            stop = n if a["stop"] is None else n + a["stop"]
            if stop - a["start"] < 2:
                M.count("exhaustive-skipped-inapplicable")
                return
            a["stop"] = None if a["stop"] is None else stop
        if op == "truncate_by_value":
            wi = truncate_indices(x, a["left"], a["right"], a["left_ratio"], a["right_ratio"])
            if wi is None or wi[1] - wi[0] + 1 < 2 or ambiguous_bounds(x, a["left"], a["right"], a["left_ratio"],
                                                                        a["right_ratio"]):
                M.count("exhaustive-skipped-inapplicable")
                return
        if op == "normalize_y" and not np.max(y) > np.min(y):
            M.count("exhaustive-skipped-inapplicable")
            return
        if n < 2 or n * (a.get("n", 1)) > MAX_LEN or not (M.x_ok_after(op, a) and M.y_ok_after(op, a)):
            M.count("exhaustive-skipped-inapplicable")
            return
        M.apply(op, a)
    if len(M.cur()[0]) >= 2 and M.st.coin(1, 4, "tail"):
        M.tail_r4()


REPLAYABLE = ("shift_x", "shift_y", "scale_x", "scale_y", "normalize_x", "append_one_sample", "repeat",
              "recreate_from_average", "integral_match", "smooth", "trend", "noise")


def replayable(M, op, a):
    """Can (op, a) from before restore_original be issued again on the current state?"""
    x, y = M.cur()
    if op not in REPLAYABLE:
        return False
    if not (M.x_ok_after(op, a) and M.y_ok_after(op, a)):
        return False            # same representability precondition as for freshly generated operations
    if op == "integral_match":
        return M.match_ready() and "fixed_points_in_x" not in a and "fixed_points_indices_in_x" not in a
    if op == "recreate_from_average":
        return len(x) >= 2 and (len(x) - 1) * a["n"] + 1 <= MAX_LEN
    if op == "repeat":
        return len(x) * a["n"] <= MAX_LEN
    if op == "smooth":
        return 5 <= len(x) <= SPLINE_MAX
    if op == "noise":
        return not isinstance(a.get("snr"), list) or len(a["snr"]) == len(x)
    return True


def _run_c09(M, params):
    st = M.st
    done = []            # operations applied so far (for replay after restore_original)
    queue = []
    for _ in range(st.draw(0, 10, "length")):
        if queue:
            op, a = queue.pop(0)
            if replayable(M, op, a):
                M.apply(op, dict(a))
                M.count("replayed-after-restore")
                continue
        k = st.weighted((6, 7, 2, 2, 1, 3), "kind")  # domain, reshaping, restore, observer, caller edit, pipeline
        n_before = len(M.kinds)
        if k == 5:
            # the documented pipeline as one move: recreate_from_average + integral_match
            g = M.gen_recreate()
            if g is not None:
                M.apply(*g)
                done.append(g)
                if M.match_ready():
                    m = ("integral_match", {"target": st.pick(("trapezoid", "rectangle"), "target"),
                                            "reference": st.pick(("rectangle", "trapezoid"), "reference")})
                    M.apply(*m)
                    done.append(m)
            continue
        if k == 2:
            # users restore and then redo (part of) what they did before - the documentation's own examples do
            if done and st.coin(1, 2, "redo-after-restore"):
                start = st.draw(0, len(done) - 1, "redo-from")
                queue = [(op, a) for op, a in done[start:]]
        if k == 0:
            g = M.gen_domain()
            done.append(g)
            M.apply(*g)
        elif k == 1:
            g = M.gen_reshape() or M.gen_domain()
            done.append(g)
            M.apply(*g)
        elif k == 2:
            M.apply("restore_original", {})
            ox, oy = M.wv.get_original()
            fresh = M.Weaver(copy.deepcopy(ox), copy.deepcopy(oy))
            M.secondary = [s for s in M.secondary if s[0] != "fresh"] + [("fresh", fresh)]
            if not same_snapshot(snapshot(M.wv), snapshot(fresh)):
                s1, s2 = snapshot(M.wv), snapshot(fresh)
                names = ("get()", "get_reference()", "get_original()")
                i = next(i for i in range(3) if not same_snapshot([s1[i]], [s2[i]]))
                M.fail("W4/restored-differs-from-fresh", "restore_original",
                       f"right after restore_original {names[i]} = ({brief(s1[i][0])}, {brief(s1[i][1])}) but a newly "
                       f"constructed Weaver on get_original() has ({brief(s2[i][0])}, {brief(s2[i][1])})")
            M.count("restore-with-fresh-twin")
        elif k == 3:
            observe(M)
        else:
            caller_edit(M)


def caller_edit(M):
    """The caller modifies, in place, the arrays get() handed out (a thing users do: `x, y = wv.get(); y += 1`).
    That is the caller's business for the working series, but it must never reach the stored original."""
    wx, wy = M.wv.get()
    if not (isinstance(wy, np.ndarray) and wy.dtype.kind == "f" and wy.flags.writeable and len(wy)):
        return
    i = M.st.draw(0, len(wy) - 1, "edit-at")
    wy[i] = wy[i] + 1.0
    M.history.append(f"caller edits get()[1][{i}] in place")
    M.kinds.append("caller_edit")
    M.model.reshape()
    M.caller = [(obj, copy.deepcopy(obj) if isinstance(obj, np.ndarray) and np.shares_memory(obj, wy) else pristine, what)
                for obj, pristine, what in M.caller]
    for label, other in M.secondary:
        ox, oy = other.get()
        if isinstance(oy, np.ndarray) and oy.dtype.kind == "f" and oy.flags.writeable and len(oy) > i:
            oy[i] = oy[i] + 1.0
    M.oracles("caller_edit", {}, snapshot(M.wv)[1])


def observe(M):
    st = M.st
    wv = M.wv
    before = snapshot(wv)
    k = st.draw(0, 6, "observer")
    x, y = M.cur()
    n = len(x)
    try:
        with warnings.catch_warnings():
            warnings.simplefilter("ignore")
            if k == 0:
                wv.get(); wv.get_reference(); wv.get_original()
            elif k == 1:
                a = st.draw(0, n - 1); b = st.draw(a + 1, n)
                sx, sy = wv.slice_by_index(a, b, st.draw(1, 3))
                sx += 0 if not isinstance(sx, np.ndarray) or sx.dtype.kind != "f" else 0.0
            elif k == 2:
                a = st.draw(1, n - 1) if n > 1 else 0
                b = st.draw(a, n - 1)
                wv.slice_by_value(x[a] if a else None, x[b])
            elif k == 3:
                wv.to_2d_array()
            elif k == 4:
                if n >= 5:
                    if len(x) <= SPLINE_MAX:
                        wv.to_function()(float(x[0]))
            elif k == 5:
                len(wv)
            else:
                copy.deepcopy(wv)
    except Exception:
        M.count("observer-raised")
    M.history.append(f"observe#{k}")
    if not same_snapshot(before, snapshot(wv)):
        M.fail("W5/observer-changed-state", f"observer={k}", "a read-only accessor changed the state")


def _remember_x(M):
    past = getattr(M, "past_x", None)
    if past is None:
        past = M.past_x = set()
    if len(past) < 4000:
        past.update(float(v) for v in M.cur()[0][:400])


def _run_c20(M, params):
    st = M.st
    _remember_x(M)
    for _ in range(st.draw(0, 6, "prefix")):
        _remember_x(M)
        if st.coin(1, 5, "observe?"):
            observe(M)                  # read-only calls (slices, to_function, ...) may build hidden state
        if st.coin(2, 5, "reshape?"):
            g = M.gen_reshape()
            if g is not None:
                M.apply(*g)
                continue
        M.apply(*M.gen_domain())
    if st.coin(1, 3, "make-match-ready") and not M.model.reshaped:
        g = M.gen_recreate()
        if g is not None:
            M.apply(*g)
    if not M.model.reshaped and st.coin(1, 12, "degenerate-tail"):
        # a valid history may leave a single sample (or two): checks that look at the current state must still refuse
        x, _ = M.cur()
        keep = st.draw(1, 2, "samples-left")
        i = st.draw(0, len(x) - keep, "first-kept")
        M.apply("truncate_by_index", {"start": i, "stop": i + keep})
        M.count("degenerate-tail")
        for _ in range(st.draw(1, 2, "n-invalid")):
            M.inject_invalid()
        return
    for _ in range(st.draw(1, 3, "n-invalid")):
        _remember_x(M)
        M.inject_invalid()
        for _ in range(st.draw(0, 3, "suffix")):
            _remember_x(M)
            if st.coin(1, 2, "reshape?"):
                g = M.gen_reshape()
                if g is not None:
                    M.apply(*g)
                    continue
            M.apply(*M.gen_domain())


# ----------------------------------------------------------------------------- engines (one per property)
class Engine:
    LEVEL = LEVEL

    def __init__(self, prop):
        self.PROPERTY = prop

    def run_single(self, params, choices, keep_log=False):
        return run_history(self.PROPERTY, params, S.Stream(replay=choices), keep_log)

    def run_unit(self, params, seed):
        out = R.UnitOutcome()
        if params.get("gen") == "exhaustive-prefix":
            first, depth = params["first"], params["depth"]
            seqs = [[first]]
            if depth >= 2:
                seqs += [[first, j] for j in range(len(ALPHABET))]
            if depth >= 3:
                seqs += [[first, j, k] for j in range(len(ALPHABET)) for k in range(len(ALPHABET))]
            for s_ in seqs:
                p = {"gen": "exhaustive", "sequence": s_}
                out.add(p, run_history(self.PROPERTY, p, S.Stream(seed=seed)))
            out.stats["exhaustive-histories"] += len(seqs)
            return out
        out.add(params, run_history(self.PROPERTY, params, S.Stream(seed=seed)))
        return out

    def plan(self, tier, verif_seed):
        units = []
        if self.PROPERTY == "C08":
            depth = 2 if tier == "quick" else 3
            units += [{"gen": "exhaustive-prefix", "first": i, "depth": depth} for i in range(len(ALPHABET))]
            units += [{"gen": "known-probe", "name": name} for name in sorted(KNOWN_PROBES)]
        n = {"C08": (100000, 2000000), "C09": (80000, 1600000), "C20": (60000, 1200000)}[self.PROPERTY]
        import os
        count = int(os.environ.get("VERIF_HISTORIES", "0")) or (n[0] if tier == "quick" else n[1])
        units += [{"gen": "seeded"}] * count
        return units

    def describe(self):
        common = ("Each execution builds a series of 4..40 points (x None/list/int64/float64; uniform, lattice or generic "
                  "spacing; ties and sign changes in y; three constructors) from the choice stream and applies a history "
                  "to the real Weaver, checking the oracles after every step against a docstring-level reference model. "
                  "Non-trivial = at least two operations of at least two kinds; distinct = distinct SHA-256 of (initial "
                  "series, formatted history).")
        rules = {
            "C08": common + " C08 mix: domain-only histories of length 0..8 followed by recreate+match (R4), mixed "
                            "domain/reshaping histories (R2/R3), shift/scale vs pipeline commutation on two objects (R5), "
                            "plus all sequences of length <= 2 (quick) / <= 3 (thorough) over a fixed alphabet of 26 "
                            "domain-operation instances.",
            "C09": common + " C09 mix: up to 10 operations from the whole public API (10 domain, 6 reshaping, "
                            "restore_original, read-only observers); after restore_original a freshly constructed Weaver "
                            "on get_original() shadows the object for the rest of the history (same RNG draws).",
            "C20": common + " C20 mix: a valid history, then 1..3 injected rejected requests from 17 invalid-argument "
                            "classes, each followed by 0..3 valid operations applied to the object and to a twin that never "
                            "saw the rejected request.",
        }
        return {
            "rule": rules[self.PROPERTY],
            "assumptions": ["magnitudes are kept moderate (|values| <= 1e3, scales in [1/4, 4], length <= 6000) so that "
                            "finiteness/monotonicity cannot fail through overflow or 1-ulp spacing",
                            "the reference model (models/weaver_model.py, ten short functions) is trusted",
                            "operations are issued only when their documented precondition holds on the observable state "
                            "(working and reference series)",
                            "numpy.random.normal is behind a recording seam; if an implementation draws differently the "
                            "legacy global seed is set before each call instead"],
            "components": {"real": ["traffic_weaver.weaver.Weaver (whole public API)", "process.py", "match.py", "rfa.py",
                                    "sorted_array_utils.py", "NumPy/SciPy"],
                           "stub": ["numpy.random.normal / standard_normal / randn (seeded recording stub)"]},
            "extra": {"bounds": {"series_points": "4..40", "history_length": "0..10", "max_length": MAX_LEN}},
        }


ENGINES = {p: Engine(p) for p in ("C08", "C09", "C20")}
