"""Self-tests of the machinery: determinism (same seed, same digests - twice in-process, in a fresh interpreter
with another hash seed, at another worker count) and sensitivity (seeded source mutations must be caught)."""
import json
import os
import shutil
import subprocess
import sys
import time

HERE = os.path.dirname(os.path.dirname(os.path.abspath(__file__)))


def _digests(engine_name, indices, verif_seed):
    from simkit import runner as R, stream as S
    eng = R.get_engine(engine_name)
    units = eng.plan("quick", verif_seed)
    out = {}
    for i in indices:
        params = units[i]
        uo = eng.run_unit(params, S.run_seed(verif_seed, engine_name, i))
        out[i] = (uo.evaluations, sorted(uo.digests), sorted(uo.stats.items()), len(uo.violations))
    return out


def determinism(args):
    import hashlib
    import machines
    from simkit import runner as R
    n = int(os.environ.get("VERIF_DET_N", "300"))
    failures = 0
    for prop, engine in sorted(machines.ENGINE_OF.items()):
        eng = R.get_engine(engine)
        for vseed in (0, 7):
            units = eng.plan("quick", vseed)
            step = max(1, len(units) // n)
            idx = list(range(0, len(units), step))[:n]
            if os.environ.get("VERIF_DET_CHILD"):
                d = _digests(engine, idx, vseed)
                h = hashlib.sha256(repr(sorted(d.items())).encode()).hexdigest()
                print(f"DIGEST {engine} {vseed} {h}")
                continue
            a = _digests(engine, idx, vseed)
            b = _digests(engine, idx, vseed)
            same = a == b
            ha = hashlib.sha256(repr(sorted(a.items())).encode()).hexdigest()
            env = dict(os.environ, VERIF_DET_CHILD="1", PYTHONHASHSEED="987", VERIF_NO_REEXEC="1")
            p = subprocess.run([sys.executable, os.path.join(HERE, "vcheck"), "selftest", "determinism"], env=env,
                               capture_output=True, text=True, timeout=3000)
            child = [l.split() for l in p.stdout.splitlines() if l.startswith(f"DIGEST {engine} {vseed} ")]
            fresh = bool(child) and child[0][3] == ha
            ok = same and fresh
            failures += 0 if ok else 1
            print(f"determinism {prop}/{engine} seed={vseed} units={len(idx)}: twice-in-process={'same' if same else 'DIFFERENT'} "
                  f"fresh-interpreter-other-hashseed={'same' if fresh else 'DIFFERENT'}")
            if not same:
                for i in idx:
                    if a[i] != b[i]:
                        print("   first differing unit", i)
                        break
            if not fresh and p.returncode != 0:
                print(p.stdout[-2000:], p.stderr[-2000:])
    if os.environ.get("VERIF_DET_CHILD"):
        return 0
    # worker-count independence: the same units on 1 and on 16 workers must merge to the same outcome
    R.scratch_root()
    for prop, engine in sorted(machines.ENGINE_OF.items()):
        eng = R.get_engine(engine)
        units = eng.plan("quick", 3)
        step = max(1, len(units) // (n * 2))
        sub = units[::step][:n * 2]
        outs = []
        for w in (1, 16):
            tot, _ = R.run_batch(engine, 3, sub, w)
            outs.append((tot.evaluations, sorted(tot.digests), sorted(tot.stats.items()), len(tot.violations)))
        ok = outs[0] == outs[1]
        failures += 0 if ok else 1
        print(f"determinism {prop}/{engine} units={len(sub)}: 1 worker vs 16 workers = {'same' if ok else 'DIFFERENT'}")
    print("determinism:", "OK" if failures == 0 else f"{failures} FAILURE(S)")
    return 0 if failures == 0 else 2


def sensitivity(args):
    from selftest.mutants import MUTANTS
    only = os.environ.get("VERIF_MUTANTS")
    base = "/dev/shm" if os.path.isdir("/dev/shm") else "/var/tmp"
    scratch = os.path.join(base, f"twv-mut-{os.getpid()}")
    results = []
    try:
        for m in MUTANTS:
            if only and not any(m["id"].startswith(x) or m["prop"] == x for x in only.split(",")):
                continue
            shutil.rmtree(scratch, ignore_errors=True)
            shutil.copytree("/repo/src", os.path.join(scratch, "src"), ignore=shutil.ignore_patterns("__pycache__"))
            f = os.path.join(scratch, "src", m["file"])
            s = open(f).read()
            if s.count(m["old"]) != 1:
                results.append((m["id"], m["prop"], "STALE (pattern occurs %d times)" % s.count(m["old"]), 0))
                continue
            open(f, "w").write(s.replace(m["old"], m["new"]))
            env = dict(os.environ, VERIF_REPO=os.path.join(scratch, "src"), PYTHONHASHSEED="0")
            t0 = time.time()
            p = subprocess.run([os.path.join(HERE, "vcheck"), m["prop"], "--no-evidence"], env=env, capture_output=True,
                               text=True, timeout=1800)
            lines = [l for l in p.stdout.splitlines() if l.startswith("VIOLATION") or "violation class=" in l]
            verdict = "caught" if p.returncode == 1 and any(l.startswith("VIOLATION") for l in lines) else \
                f"MISSED (exit {p.returncode})"
            cls = next((l.split("class=")[1].split()[0] for l in lines if "class=" in l), "")
            results.append((m["id"], m["prop"], verdict + " " + cls, time.time() - t0))
            print(f"{m['id']:55s} {m['prop']} {verdict} {cls} ({time.time() - t0:.0f}s)", flush=True)
            if "MISSED" in verdict and p.returncode not in (0,):
                print(p.stdout[-1500:], p.stderr[-1500:])
    finally:
        shutil.rmtree(scratch, ignore_errors=True)
        for f in os.listdir(os.path.join(HERE, "replays")) if os.path.isdir(os.path.join(HERE, "replays")) else []:
            pass
    missed = [r for r in results if not r[2].startswith("caught")]
    print(f"sensitivity: {len(results) - len(missed)}/{len(results)} mutants caught")
    with open(os.path.join(HERE, "selftest", "last_sensitivity.json"), "w") as fh:
        json.dump([dict(id=r[0], prop=r[1], verdict=r[2], seconds=round(r[3], 1)) for r in results], fh, indent=1)
    return 0 if not missed else 2


def soundness(args):
    """Behaviour-preserving refactorings: every check must stay silent."""
    from selftest.refactors import REFACTORS
    only = os.environ.get("VERIF_REFACTORS")
    base = "/dev/shm" if os.path.isdir("/dev/shm") else "/var/tmp"
    scratch = os.path.join(base, f"twv-ref-{os.getpid()}")
    bad, total, rows = 0, 0, []
    try:
        for r in REFACTORS:
            if only and not any(r["id"].startswith(x) for x in only.split(",")):
                continue
            shutil.rmtree(scratch, ignore_errors=True)
            shutil.copytree("/repo/src", os.path.join(scratch, "src"), ignore=shutil.ignore_patterns("__pycache__"))
            stale = False
            if r.get("patch"):
                pr = subprocess.run(["patch", "-p1", "-s", "-d", scratch, "-i", os.path.join(HERE, r["patch"])],
                                    capture_output=True, text=True)
                stale = pr.returncode != 0
            for f, old, new in r.get("edits", []):
                path = os.path.join(scratch, "src", f)
                s = open(path).read()
                if s.count(old) != 1:
                    stale = True
                    break
                open(path, "w").write(s.replace(old, new))
            if stale:
                print(f"{r['id']:40s} STALE pattern")
                bad += 1
                continue
            env = dict(os.environ, VERIF_REPO=os.path.join(scratch, "src"), PYTHONHASHSEED="0")
            for prop in r["props"]:
                total += 1
                t0 = time.time()
                p = subprocess.run([os.path.join(HERE, "vcheck"), prop, "--no-evidence"], env=env, capture_output=True,
                                   text=True, timeout=1800)
                ok = p.returncode == 0 and "VIOLATION" not in p.stdout
                bad += 0 if ok else 1
                rows.append(dict(id=r["id"], prop=prop, silent=ok, exit=p.returncode, seconds=round(time.time() - t0, 1)))
                print(f"{r['id']:40s} {prop} {'silent' if ok else 'ALARM (exit %d)' % p.returncode} ({time.time() - t0:.0f}s)", flush=True)
                if not ok:
                    print("\n".join(l for l in p.stdout.splitlines() if "iolation" in l or "HARNESS" in l)[:1500])
                    print(p.stderr[-800:])
    finally:
        shutil.rmtree(scratch, ignore_errors=True)
    print(f"soundness: {total - bad}/{total} refactor x check combinations stayed silent")
    with open(os.path.join(HERE, "selftest", "last_soundness.json"), "w") as fh:
        json.dump(rows, fh, indent=1)
    return 0 if bad == 0 else 2


def main(name, args):
    if name == "kernel":
        from selftest import kernel
        return kernel.main()
    if name == "soundness":
        return soundness(args)
    if name == "determinism":
        return determinism(args)
    if name == "sensitivity":
        return sensitivity(args)
    print("unknown selftest", name)
    return 2
