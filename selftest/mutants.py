"""Sensitivity catalogue: realistic source mutations (old -> new text) that keep the pinned suite green
but break one property.  Used only against a scratch copy of /repo/src (VERIF_REPO)."""

B = "traffic_weaver/datasets/_base.py"
MUTANTS = [
    # ---------------- C19
    dict(id="c19-direct-write", prop="C19", file=B,
         old='dataset_tmp_file_path = path.join(tmp_dir, dataset_filename)',
         new='dataset_tmp_file_path = dataset_file_path'),
    dict(id="c19-copy-not-rename", prop="C19", file=B,
         old='os.rename(dataset_tmp_file_path, dataset_file_path)',
         new='shutil.copyfile(dataset_tmp_file_path, dataset_file_path)'),
    dict(id="c19-rename-before-close", prop="C19", file=B,
         old='            pickle.dump(dataset, open(dataset_tmp_file_path, "wb"))\n            os.rename(dataset_tmp_file_path, dataset_file_path)',
         new='            fh = open(dataset_tmp_file_path, "wb")\n            pickle.dump(dataset, fh)\n            os.rename(dataset_tmp_file_path, dataset_file_path)\n            fh.close()'),
    dict(id="c19-no-checksum", prop="C19", file=B, old='    if validate_checksum:\n        checksum', new='    if False:\n        checksum'),
    dict(id="c19-checksum-inverted", prop="C19", file=B, old='if remote.checksum != checksum:', new='if remote.checksum == checksum:'),
    dict(id="c19-retry-off-by-one-less", prop="C19", file=B, old='if n_retries == 0:', new='if n_retries <= 1:'),
    dict(id="c19-retry-off-by-one-more", prop="C19", file=B, old='if n_retries == 0:', new='if n_retries < 0:'),
    dict(id="c19-catch-only-urlerror", prop="C19", file=B, old='except (URLError, TimeoutError):', new='except URLError:'),
    dict(id="c19-never-decrement", prop="C19", file=B, old='            n_retries -= 1\n', new=''),
    dict(id="c19-ignore-force", prop="C19", file=B,
         old='(download_if_missing and download_even_if_available and available)', new='False'),
    dict(id="c19-download-although-forbidden", prop="C19", file=B,
         old='if (download_if_missing and not available) or', new='if (not available) or'),
    dict(id="c19-always-download", prop="C19", file=B,
         old='if (download_if_missing and not available) or (download_if_missing and download_even_if_available and available):',
         new='if download_if_missing:'),
    dict(id="c19-tmp-outside-dataset-dir-then-move-nonatomic", prop="C19", file=B,
         old='os.rename(dataset_tmp_file_path, dataset_file_path)',
         new='open(dataset_file_path, "wb").write(open(dataset_tmp_file_path, "rb").read())'),
    dict(id="c19-swallow-exhausted", prop="C19", file=B,
         old='                raise\n            warnings.warn', new='                break\n            warnings.warn'),
    dict(id="c19-shared-slot", prop="C19", file="traffic_weaver/datasets/_mix_it.py",
         old='dataset_filename="mix-it-milan_weekly"', new='dataset_filename="mix-it-milan_daily"'),
    dict(id="c19-cache-hit-revalidates-online", prop="C19", file=B,
         old='    if dataset is None:\n        dataset = pickle.load',
         new='    if dataset is None:\n        urlretrieve(remote.url, path.join(dataset_dir, ".probe"))\n        dataset = pickle.load'),
]
