"""Self-test of the simulation kernel on toy programs with known answers: the scheduler must find a lost update,
the crash sweep must expose a torn in-place write, the emulated flock must serialise (and be dropped by a kill),
simulated time must cost no wall time, shrinking must shorten the schedule, and replay must reproduce the digest."""
import fcntl
import os
import shutil
import time

from simkit import runner as R
from simkit import sim as K
from simkit import stream as S


def _root():
    root = os.path.join(R.scratch_root(), f"kernel-{os.getpid()}")
    shutil.rmtree(root, ignore_errors=True)
    os.makedirs(root)
    return root


def _counter_program(path, use_lock):
    def fn():
        lf = None
        if use_lock:
            lf = open(path + ".lock", "a")
            fcntl.flock(lf, fcntl.LOCK_EX)
        with open(path) as f:
            v = int(f.read() or 0)
        with open(path, "w") as f:
            f.write(str(v + 1))
        if lf is not None:
            fcntl.flock(lf, fcntl.LOCK_UN)
            lf.close()
        return v + 1
    return fn


def run_counter(choices=None, seed=None, use_lock=False, n=2, discipline="uniform", crash=None):
    """n simulated processes increment one counter file. Returns (final value, digest, recorded choices, steps)."""
    K.install()
    st = S.Stream(seed=seed, replay=choices)
    root = _root()
    path = os.path.join(root, "counter")
    with open(path, "w") as f:
        f.write("0")
    sim = K.Sim(st, root)
    sim.discipline = discipline
    K.activate(sim)
    try:
        actors = [sim.spawn(f"p{i}", _counter_program(path, use_lock)) for i in range(n)]
        if crash is not None:
            actors[crash[0]].crash_at = crash[1]
        sim.run()
        with open(path) as f:
            txt = f.read()
    finally:
        try:
            sim.reap()
        finally:
            K.deactivate()
            shutil.rmtree(root, ignore_errors=True)
    alive = sum(1 for a in actors if a.state == K.DONE)
    return txt, alive, sim.digest(), list(st.rec), sim.step, sim


def main():
    ok = True

    def check(name, cond, detail=""):
        nonlocal ok
        ok = ok and bool(cond)
        print(f"kernel {name}: {'ok' if cond else 'FAILED'} {detail}")

    # 1. lost update found by seeded search, minimised, replayed
    found = None
    for seed in range(300):
        txt, alive, dig, rec, steps, _ = run_counter(seed=seed)
        if txt != "2":
            found = (seed, rec, dig, txt)
            break
    check("lost-update-found", found is not None, f"(seed {found[0]}, final value {found[3]!r})" if found else "")
    if found:
        def fails(cand):
            t, _, _, rec2, _, _ = run_counter(choices=cand)
            return t != "2", rec2
        small, execs = S.shrink(fails, found[1])
        t1, _, d1, _, _, _ = run_counter(choices=small)
        t2, _, d2, _, _, _ = run_counter(choices=small)
        check("shrink-and-replay", t1 != "2" and d1 == d2 and len(small) <= len(found[1]),
              f"({len(found[1])} -> {len(small)} choices in {execs} executions, digest {d1:016x} twice)")
    # 2. with the emulated flock no schedule loses an update
    bad = [s for s in range(300) if run_counter(seed=s, use_lock=True, n=3)[0] != "3"]
    check("flock-serialises", not bad, f"(300 schedules of 3 processes{', failing seeds ' + str(bad[:3]) if bad else ''})")
    # 3. a killed lock holder drops its lock: the others still finish
    stuck = []
    for k in range(1, 12):
        try:
            txt, alive, *_ = run_counter(seed=k, use_lock=True, n=3, crash=(0, k))
            if alive < 2:
                stuck.append(k)
        except K.StepCap:
            stuck.append(k)
    check("kill-drops-lock", not stuck, f"(crash points 1..11 of the first process{', stuck at ' + str(stuck) if stuck else ''})")
    # 4. torn in-place write exposed by the crash sweep
    torn = []
    for k in range(1, 10):
        txt, alive, *_ = run_counter(seed=1, n=1, discipline="serial", crash=(0, k))
        if txt == "":
            torn.append(k)
    check("crash-sweep-exposes-torn-write", bool(torn), f"(empty counter file after a kill at yield {torn})")
    # 5. simulated time
    K.install()
    root = _root()
    sim = K.Sim(S.Stream(seed=0), root)
    K.activate(sim)
    seen = {}
    try:
        def sleeper():
            t0 = time.time()
            time.sleep(3600.0)
            seen["dt"] = time.time() - t0
        sim.spawn("sleeper", sleeper)
        w0 = time.monotonic()
        sim.run()
        wall = time.monotonic() - w0
    finally:
        sim.reap()
        K.deactivate()
        shutil.rmtree(root, ignore_errors=True)
    check("virtual-sleep", abs(seen.get("dt", 0) - 3600.0) < 1e-6 and wall < 1.0,
          f"(an hour of simulated sleep read back as {seen.get('dt')} s and cost {wall * 1000:.1f} ms of wall time)")
    # 5b. SIGINT unwinds through clean-up code step by step; exit handlers run at process exit, never after a kill
    K.install()
    root = _root()
    sim = K.Sim(S.Stream(seed=3), root)
    sim.discipline = "serial"
    K.activate(sim)
    marks = {}
    try:
        def prog(tag):
            def fn():
                import atexit
                atexit.register(lambda: marks.__setitem__(tag + ".atexit", True))
                try:
                    for i in range(5):
                        with open(os.path.join(root, f"{tag}{i}"), "w") as f:
                            f.write("x")
                finally:
                    with open(os.path.join(root, tag + ".cleanup"), "w") as f:
                        f.write("done")
            return fn
        a = sim.spawn("interrupted", prog("a"))
        a.interrupt_at = 4
        b = sim.spawn("killed", prog("b"))
        b.crash_at = 4
        sim.run()
        a_ok = isinstance(a.exc, KeyboardInterrupt) and os.path.exists(os.path.join(root, "a.cleanup")) \
            and marks.get("a.atexit") and not os.path.exists(os.path.join(root, "a4"))
        b_ok = b.state == K.CRASHED and not os.path.exists(os.path.join(root, "b.cleanup")) and not marks.get("b.atexit")
    finally:
        sim.reap()
        K.deactivate()
        shutil.rmtree(root, ignore_errors=True)
    check("interrupt-vs-kill", bool(a_ok and b_ok),
          "(SIGINT: clean-up code and exit handler ran, the remaining work did not; kill: neither ran)")
    # 6. a worker killed by a native crash: the batch survives, exactly that unit is skipped and counted
    import machines  # noqa: F401
    eng = R.get_engine("noise")
    units = eng.plan("quick", 0)[:600]
    os.environ["VERIF_TEST_CRASH_INDEX"] = "137"
    try:
        devnull = os.open(os.devnull, os.O_WRONLY)
        saved = os.dup(2)
        os.dup2(devnull, 2)                      # the crashing child prints a faulthandler traceback: not wanted here
        try:
            tot, _ = R.run_batch("noise", 0, units, 8)
        finally:
            os.dup2(saved, 2)
            os.close(saved)
            os.close(devnull)
    finally:
        os.environ.pop("VERIF_TEST_CRASH_INDEX", None)
    tot2, _ = R.run_batch("noise", 0, units, 8)
    check("native-crash-isolated", tot.native_crashes == [(137, 11)] and tot.evaluations == tot2.evaluations - 1,
          f"(unit 137 skipped after SIGSEGV, {tot.evaluations} of {tot2.evaluations} executions kept)")
    print("kernel:", "OK" if ok else "FAILED")
    return 0 if ok else 2
