"""Soundness catalogue: behaviour-preserving refactorings of the library.  Every check must stay silent (exit 0)
on each of them - a check that fires here would be a false-alarm generator."""
B = "traffic_weaver/datasets/_base.py"
W = "traffic_weaver/weaver.py"
P = "traffic_weaver/process.py"

REFACTORS = [
    dict(id="r-os-replace", props=["C19", "C18"], edits=[(B, "os.rename(dataset_tmp_file_path, dataset_file_path)",
                                                       "os.replace(dataset_tmp_file_path, dataset_file_path)")]),
    dict(id="r-pid-temp-prefix", props=["C19"], edits=[(B, "with TemporaryDirectory(dir=dataset_dir) as tmp_dir:",
                                                      "with TemporaryDirectory(dir=dataset_dir, prefix=f'tmp{os.getpid()}-') as tmp_dir:")]),
    dict(id="r-import-module-urlretrieve", props=["C19", "C18"], edits=[
        (B, "from urllib.request import urlretrieve\n", "import urllib.request\n"),
        (B, "            urlretrieve(remote.url, file_path)", "            urllib.request.urlretrieve(remote.url, file_path)")]),
    dict(id="r-with-block-then-rename", props=["C19"], edits=[
        (B, '            pickle.dump(dataset, open(dataset_tmp_file_path, "wb"))\n',
         '            with open(dataset_tmp_file_path, "wb") as fh:\n                pickle.dump(dataset, fh)\n')]),
    dict(id="r-npy-cache-format", props=["C19", "C18"], edits=[
        (B, '            pickle.dump(dataset, open(dataset_tmp_file_path, "wb"))\n',
         '            with open(dataset_tmp_file_path, "wb") as fh:\n                np.save(fh, dataset)\n'),
        (B, '        dataset = pickle.load(open(dataset_file_path, "rb"))',
         '        with open(dataset_file_path, "rb") as fh:\n            dataset = np.load(fh)')]),
    dict(id="r-fsync-before-rename", props=["C19"], edits=[
        (B, '            pickle.dump(dataset, open(dataset_tmp_file_path, "wb"))\n',
         '            with open(dataset_tmp_file_path, "wb") as fh:\n                pickle.dump(dataset, fh)\n'
         '                fh.flush()\n                os.fsync(fh.fileno())\n')]),
    dict(id="r-retry-for-loop", props=["C19"], edits=[
        (B, "    while True:\n        try:\n            urlretrieve(remote.url, file_path)\n            break\n"
            "        except (URLError, TimeoutError):\n            if n_retries == 0:\n"
            "                # If no more retries are left, re-raise the caught exception.\n                raise\n"
            "            warnings.warn(f\"Retry downloading from url: {remote.url}\")\n            n_retries -= 1\n"
            "            time.sleep(delay)\n",
         "    for attempt in range(n_retries + 1):\n        try:\n            urlretrieve(remote.url, file_path)\n            break\n"
         "        except (URLError, TimeoutError):\n            if attempt == n_retries:\n                raise\n"
         "            warnings.warn(f\"Retry downloading from url: {remote.url}\")\n            time.sleep(delay * (attempt + 1))\n")]),
    dict(id="r-file-digest", props=["C19", "C18"], edits=[
        (B, "    sha256hash = hashlib.sha256()\n    chunk_size = 8192\n    with open(path, \"rb\") as f:\n        while True:\n"
            "            buffer = f.read(chunk_size)\n            if not buffer:\n                break\n"
            "            sha256hash.update(buffer)\n    return sha256hash.hexdigest()",
         "    with open(path, \"rb\") as f:\n        return hashlib.file_digest(f, \"sha256\").hexdigest()")]),
    dict(id="r-pathlib-data-home", props=["C18", "C19"], edits=[
        (B, "    data_home = path.expanduser(data_home)\n    makedirs(data_home, exist_ok=True)\n    return data_home",
         "    import pathlib\n    p = pathlib.Path(data_home).expanduser()\n    p.mkdir(parents=True, exist_ok=True)\n    return str(p)")]),
    dict(id="r-lookup-table", props=["C18", "C20"], edits=[
        (B, "    try:\n        getattr(traffic_weaver.datasets._datasets, fun_name)\n    except AttributeError:\n"
            "        raise ValueError(f\"No such dataset: {dataset}\")\n"
            "    return getattr(traffic_weaver.datasets._datasets, fun_name)(unpack_dataset_columns=unpack_dataset_columns)",
         "    loader = vars(traffic_weaver.datasets._datasets).get(fun_name)\n    if not callable(loader):\n"
         "        raise ValueError(f\"Unknown dataset name {dataset!r}\")\n"
         "    return loader(unpack_dataset_columns=unpack_dataset_columns)")]),
    dict(id="r-trend-vectorised", props=["C09", "C08", "C20"], edits=[
        (P, "    for i in range(len(x)):\n        if normalized:\n            y[i] += fun(x[i] / range_x)\n        else:\n"
            "            y[i] += fun(x[i])\n    return x, y",
         "    arg = x / range_x if normalized else x\n    return x, y + np.array([fun(v) for v in arg], dtype=np.float64)")]),
    dict(id="r-noise-standard-normal", props=["C15", "C09"], edits=[
        (P, "    noise = np.random.normal(loc=0, scale=std_n, size=a.shape)", "    noise = np.random.standard_normal(a.shape) * std_n")]),
    dict(id="r-noise-randn", props=["C15"], edits=[
        (P, "    noise = np.random.normal(loc=0, scale=std_n, size=a.shape)", "    noise = std_n * np.random.randn(*a.shape)")]),
    dict(id="r-ctor-copies-input", props=["C09", "C08", "C20"], edits=[
        (W, "            self.x = np.asarray(x)\n        self.y = np.asarray(y)", "            self.x = np.array(x)\n        self.y = np.array(y)")]),
    dict(id="r-restore-via-copy-helper", props=["C09", "C08"], edits=[
        (W, "        self.x = self.original_x.copy()\n        self.y = self.original_y.copy()\n"
            "        self.reference_x = self.original_x.copy()\n        self.reference_y = self.original_y.copy()",
         "        self.x, self.y = np.array(self.original_x), np.array(self.original_y)\n"
         "        self.reference_x, self.reference_y = np.array(self.original_x), np.array(self.original_y)")]),
    dict(id="r-truncate-validates-in-weaver", props=["C20", "C08", "C09"], edits=[
        (W, "        x, y = truncate(self.x, self.y, x_left=x_left, x_right=x_right, x_left_as_ratio=x_left_as_ratio,",
         "        if not x_left_as_ratio and not x_right_as_ratio and x_left >= x_right:\n"
         "            raise ValueError('empty truncation range')\n"
         "        x, y = truncate(self.x, self.y, x_left=x_left, x_right=x_right, x_left_as_ratio=x_left_as_ratio,")]),
    dict(id="r-scale-reference-first", props=["C08", "C09"], edits=[
        (W, "        self.y_scale = self.y_scale * scale\n        self.y = self.y * scale\n        self.reference_y = self.reference_y * scale\n",
         "        self.reference_y = scale * self.reference_y\n        self.y = scale * self.y\n        self.y_scale *= scale\n")]),
    dict(id="r-interpolate-dispatch-dict", props=["C20", "C09"], edits=[
        (P, "    raise ValueError(f\"Unknown interpolation method: {method}\")", "    raise ValueError('method must be one of linear, constant, cubic, spline')")]),
    dict(id="r-flock-serialised-downloads", props=["C19"], edits=[
        (B, "        os.makedirs(dataset_dir, exist_ok=True)\n        with TemporaryDirectory(dir=dataset_dir) as tmp_dir:\n",
         "        os.makedirs(dataset_dir, exist_ok=True)\n        import fcntl\n"
         "        lock_file = open(path.join(dataset_dir, '.lock'), 'a')\n        fcntl.flock(lock_file, fcntl.LOCK_EX)\n"
         "        with TemporaryDirectory(dir=dataset_dir) as tmp_dir:\n"),
        (B, "            os.rename(dataset_tmp_file_path, dataset_file_path)\n",
         "            os.rename(dataset_tmp_file_path, dataset_file_path)\n"
         "        fcntl.flock(lock_file, fcntl.LOCK_UN)\n        lock_file.close()\n")]),
    dict(id="r-stage-in-system-tmp-publish-atomically", props=["C19", "C18"], edits=[
        (B, "        with TemporaryDirectory(dir=dataset_dir) as tmp_dir:\n", "        with TemporaryDirectory(prefix='traffic-weaver-') as tmp_dir:\n"),
        (B, "            os.rename(dataset_tmp_file_path, dataset_file_path)\n",
         "            import tempfile\n            fd, staged = tempfile.mkstemp(dir=dataset_dir, prefix='tmp-publish-')\n"
         "            os.close(fd)\n            shutil.copyfile(dataset_tmp_file_path, staged)\n"
         "            os.replace(staged, dataset_file_path)\n")]),
    dict(id="r-urlopen-streaming", props=["C19", "C18"], edits=[
        (B, "from urllib.request import urlretrieve\n", "from urllib.request import urlopen\n"),
        (B, "            urlretrieve(remote.url, file_path)\n",
         "            with urlopen(remote.url) as response, open(file_path, 'wb') as out:\n"
         "                shutil.copyfileobj(response, out)\n")]),
    dict(id="r-retry-backoff-with-jitter", props=["C19"], edits=[
        (B, "            time.sleep(delay)\n", "            import random\n            time.sleep(delay * (1.0 + random.random() / 4))\n")]),
    dict(id="r-noise-private-generator-seeded-from-global", props=["C15", "C09"], edits=[
        (P, "    noise = np.random.normal(loc=0, scale=std_n, size=a.shape)",
         "    rng = np.random.default_rng(np.random.randint(0, 2 ** 31 - 1))\n    noise = rng.normal(loc=0, scale=std_n, size=a.shape)")]),
    dict(id="r-inprocess-memo-of-cache-reads", props=["C19", "C18"], edits=[
        (B, "    if dataset is None:\n        dataset = pickle.load(open(dataset_file_path, \"rb\"))\n",
         "    if dataset is None:\n        st_ = os.stat(dataset_file_path)\n"
         "        key_ = (dataset_file_path, st_.st_ino, st_.st_mtime_ns, st_.st_size)\n"
         "        if key_ not in _MEMO:\n            _MEMO.clear()\n            _MEMO[key_] = pickle.load(open(dataset_file_path, \"rb\"))\n"
         "        dataset = _MEMO[key_].copy()\n"),
        (B, "logger = logging.getLogger(__name__)\n", "logger = logging.getLogger(__name__)\n_MEMO = {}\n")]),
    # a polling lock DIRECTORY with a 15-minute lease and a working take-over (the correct variant of seeded r10c19):
    # after a kill inside the critical section a later load legitimately sleeps until the lease has run out
    dict(id="r-lockdir-with-lease-recovery", props=["C19"], patch="selftest/patches/r-lockdir-with-lease-recovery.diff"),
]
